//! One request per input line (JSON), one response line (JSON string) per request.
//! ops: parse (acceptance + skeleton), format (Display of the AST), json / cbor / csv (validation verdict class).
#[path = "../../harness/vcore/src/skel.rs"]
mod skel;

use std::io::{BufRead, Write};

fn unhex(s: &str) -> Vec<u8> {
  (0..s.len() / 2).filter_map(|i| u8::from_str_radix(&s[2 * i..2 * i + 2], 16).ok()).collect()
}

fn guard<T>(f: impl FnOnce() -> T) -> Result<T, String> {
  std::panic::catch_unwind(std::panic::AssertUnwindSafe(f)).map_err(|_| "panic".to_string())
}

#[allow(unused_variables)]
fn handle(j: &serde_json::Value) -> String {
  let op = j["op"].as_str().unwrap_or("");
  let text = j["text"].as_str().unwrap_or("");
  match op {
    "features" => {
      let mut f = vec!["std"];
      #[cfg(feature = "ast-span")]
      f.push("ast-span");
      #[cfg(feature = "ast-comments")]
      f.push("ast-comments");
      #[cfg(feature = "ast-parent")]
      f.push("ast-parent");
      #[cfg(feature = "json")]
      f.push("json");
      #[cfg(feature = "cbor")]
      f.push("cbor");
      #[cfg(feature = "csv-validate")]
      f.push("csv-validate");
      #[cfg(feature = "additional-controls")]
      f.push("additional-controls");
      #[cfg(feature = "freezer")]
      f.push("freezer");
      f.join(",")
    }
    "parse" => match guard(|| cddl::cddl_from_str(text, false).map(|c| skel::skel(&c))) {
      Err(p) => p,
      Ok(Ok(s)) => format!("accepted\n{}", s),
      Ok(Err(_)) => "rejected".to_string(),
    },
    "format" => match guard(|| cddl::cddl_from_str(text, false).map(|c| c.to_string())) {
      Err(p) => p,
      Ok(Ok(s)) => format!("formatted\n{}", s),
      Ok(Err(_)) => "rejected".to_string(),
    },
    "json" => {
      #[cfg(feature = "json")]
      {
        use cddl::validator::json::Error as E;
        let doc = j["doc"].as_str().unwrap_or("");
        #[cfg(feature = "additional-controls")]
        let r = guard(|| cddl::validate_json_from_str(text, doc, None));
        #[cfg(not(feature = "additional-controls"))]
        let r = guard(|| cddl::validate_json_from_str(text, doc));
        match r {
          Err(p) => p,
          Ok(Ok(())) => "valid".into(),
          Ok(Err(E::Validation(_))) => "invalid".into(),
          Ok(Err(E::CDDLParsing(_))) => "schema_error".into(),
          Ok(Err(E::JSONParsing(_))) => "document_error".into(),
          Ok(Err(_)) => "other_error".into(),
        }
      }
      #[cfg(not(feature = "json"))]
      {
        "unavailable".to_string()
      }
    }
    "cbor" => {
      #[cfg(feature = "cbor")]
      {
        use cddl::validator::cbor::Error as E;
        let doc = unhex(j["doc"].as_str().unwrap_or(""));
        #[cfg(feature = "additional-controls")]
        let r = guard(|| cddl::validate_cbor_from_slice(text, &doc, None));
        #[cfg(not(feature = "additional-controls"))]
        let r = guard(|| cddl::validate_cbor_from_slice(text, &doc));
        match r {
          Err(p) => p,
          Ok(Ok(())) => "valid".into(),
          Ok(Err(E::Validation(_))) => "invalid".into(),
          Ok(Err(E::CDDLParsing(_))) => "schema_error".into(),
          Ok(Err(E::CBORParsing(_))) => "document_error".into(),
          Ok(Err(_)) => "other_error".into(),
        }
      }
      #[cfg(not(feature = "cbor"))]
      {
        "unavailable".to_string()
      }
    }
    "csv" => {
      #[cfg(feature = "csv-validate")]
      {
        let doc = j["doc"].as_str().unwrap_or("");
        let header = j["header"].as_bool();
        #[cfg(feature = "additional-controls")]
        let r = guard(|| cddl::validate_csv_from_str(text, doc, header, None).is_ok());
        #[cfg(not(feature = "additional-controls"))]
        let r = guard(|| cddl::validate_csv_from_str(text, doc, header).is_ok());
        match r {
          Err(p) => p,
          Ok(true) => "valid".into(),
          Ok(false) => "not_valid".into(),
        }
      }
      #[cfg(not(feature = "csv-validate"))]
      {
        "unavailable".to_string()
      }
    }
    _ => "unknown_op".to_string(),
  }
}

fn main() {
  std::panic::set_hook(Box::new(|_| {}));
  // the protocol owns fd 1: the library prints diagnostics on its own (println! in the .plus code, codespan on stderr)
  let mut out = unsafe {
    let proto = libc::dup(1);
    let dn = libc::open(b"/dev/null\0".as_ptr() as *const libc::c_char, libc::O_WRONLY);
    libc::dup2(dn, 1);
    libc::dup2(dn, 2);
    <std::fs::File as std::os::unix::io::FromRawFd>::from_raw_fd(proto)
  };
  let stdin = std::io::stdin();
  for line in stdin.lock().lines() {
    let line = match line {
      Ok(l) => l,
      Err(_) => break,
    };
    let j: serde_json::Value = match serde_json::from_str(&line) {
      Ok(j) => j,
      Err(_) => continue,
    };
    let r = handle(&j);
    let _ = writeln!(out, "{}", serde_json::Value::String(r));
    let _ = out.flush();
  }
}
