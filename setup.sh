#!/bin/bash
# MANIFEST.setup_cmd: offline build of the harness (and, later, fuzz targets / CLI).
set -eu
cd "$(dirname "$0")"
export CARGO_NET_OFFLINE=true
mkdir -p evidence target
(cd harness && cargo build --release)
echo "setup ok"
