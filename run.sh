#!/bin/bash
# run.sh <Cxx> [quick|thorough] : rebuild the harness against /repo's working tree, run one check.
# exit 0 = property held on everything explored (KNOWN-FINDING lines allowed),
# exit 1 = VIOLATION line printed, exit 2 = inconclusive / harness problem.
set -u
cd "$(dirname "$0")"
PROP="${1:?property id}"
TIER="${2:-${VERIF_TIER:-quick}}"
export CARGO_NET_OFFLINE=true
export VERIF_DIR="$(pwd)"
mkdir -p evidence target
LOG="target/build_${PROP}.log"
if ! (cd harness && cargo build --release -p vcheck >"../$LOG" 2>&1); then
  echo "harness build failed (see $LOG)" >&2
  tail -30 "$LOG" >&2
  exit 2
fi
if [ "$PROP" = "C18" ]; then
  # the command-line tool, rebuilt from /repo's working tree into target/cli (never into /repo/target)
  if ! cargo build --release --bin cddl --manifest-path /repo/Cargo.toml --target-dir "$VERIF_DIR/target/cli" >"target/build_cli.log" 2>&1; then
    echo "cddl binary build failed (see target/build_cli.log)" >&2
    tail -30 target/build_cli.log >&2
    exit 2
  fi
fi
rm -f "target/hang_${PROP}.txt"
./target/harness/release/vcheck "$PROP" "$TIER"
code=$?
# thorough tier: coverage-guided campaign (libFuzzer, oracle inside the target) after the generated tier
if [ "$code" = "0" ] && [ "$TIER" = "thorough" ] && [ -z "${VERIF_NO_FUZZ:-}" ]; then
  case "$PROP" in
    C11) python3 tools/fuzz_tier.py C11 c11_decode 400000 8 512; code=$? ;;
    C03) python3 tools/fuzz_tier.py C03 c03_agreement 250000 8 120; code=$? ;;
    C05) python3 tools/fuzz_tier.py C05 c05_parse 100000 8 300; code=$? ;;
    C15) python3 tools/fuzz_tier.py C15 c15_spans 100000 8 200; code=$? ;;
  esac
fi
if [ -f "target/hang_${PROP}.txt" ]; then cat "target/hang_${PROP}.txt" >&2; fi
if [ "$code" = "3" ]; then echo "ABORT: the process was aborted (stack overflow / allocation failure) inside a call into the crate under test; inputs of the calls in flight: target/abort_${PROP}.jsonl ; the run is inconclusive" >&2; code=2; fi
exit $code
