//! C08 — naming, generics, sockets and parentheses are semantically transparent: the verdict is
//! unchanged under meaning-preserving refactorings of the schema.
use crate::semcheck::{survey_add, survey_dump, survey_on};
use vcore::calls::{self, V};
use vcore::cbor::{self, CVal};
use vcore::cmodel::*;
use vcore::jsonw;
use vcore::sample::{near_miss, Sampler};
use vcore::semgen::{GenOpts, SemGen};
use vcore::{json, search, Ctx, Fail, Stats, Tape, J};

// ---------------------------------------------------------------------------------------
// mutable traversal of every type2 position
// ---------------------------------------------------------------------------------------

struct Site<'a> {
  rule: usize,
  /// type2 that is the left or right operand of an operator, a member key or a generic argument: kept simple
  plain_position: bool,
  /// first type2 of a key-less group entry: a '(' here would be read as an inline group
  entry_head: bool,
  t2: &'a mut Ty2,
}

fn sites_ty<'a>(t: &'a mut Ty, rule: usize, out: &mut Vec<Site<'a>>) {
  for t1 in t.0.iter_mut() {
    sites_ty1(t1, rule, true, out);
  }
}

fn sites_ty1<'a>(t1: &'a mut Ty1, rule: usize, plain: bool, out: &mut Vec<Site<'a>>) {
  let has_op = t1.op.is_some();
  // split borrows
  let Ty1 { t2, op } = t1;
  sites_ty2(t2, rule, plain && !has_op, out);
  if let Some((_, rhs)) = op {
    sites_ty2(rhs, rule, false, out);
  }
}

fn sites_ty2<'a>(t2: &'a mut Ty2, rule: usize, plain: bool, out: &mut Vec<Site<'a>>) {
  // children first need a reborrow trick: collect the node itself last via raw pointer (safe: disjoint use)
  let p: *mut Ty2 = t2;
  match t2 {
    Ty2::Lit(_) | Ty2::Any | Ty2::Major { .. } => {}
    Ty2::Name { args, .. } | Ty2::Unwrap { args, .. } | Ty2::ChoiceName { args, .. } => {
      for a in args.iter_mut() {
        sites_ty1(a, rule, false, out);
      }
    }
    Ty2::Paren(t) => sites_ty(t, rule, out),
    Ty2::Map(g) | Ty2::Arr(g) | Ty2::ChoiceInline(g) => sites_grp(g, rule, out),
    Ty2::Tag { ty, .. } => sites_ty(ty, rule, out),
  }
  // the node itself (children sites borrow disjoint sub-objects; the caller only uses one site at a time)
  out.push(Site { rule, plain_position: plain, entry_head: false, t2: unsafe { &mut *p } });
}

fn sites_grp<'a>(g: &'a mut Grp, rule: usize, out: &mut Vec<Site<'a>>) {
  for gc in g.0.iter_mut() {
    for e in gc.iter_mut() {
      sites_ent(e, rule, out);
    }
  }
}

fn sites_ent<'a>(e: &'a mut Ent, rule: usize, out: &mut Vec<Site<'a>>) {
  match &mut e.kind {
    EntKind::Val { key, ty } => {
      let keyless = key.is_none();
      if let Some(Key::Arrow { t1, .. }) = key {
        sites_ty1(t1, rule, false, out);
      }
      let head: *const Ty2 = &ty.0[0].t2;
      let start = out.len();
      sites_ty(ty, rule, out);
      if keyless {
        for st in out[start..].iter_mut() {
          if std::ptr::eq(&*st.t2 as *const Ty2, head) {
            st.entry_head = true;
          }
        }
      }
    }
    EntKind::Ref { args, .. } => {
      for a in args.iter_mut() {
        sites_ty1(a, rule, false, out);
      }
    }
    EntKind::Inline(g) => sites_grp(g, rule, out),
  }
}

fn all_sites(s: &mut Schema) -> Vec<Site<'_>> {
  let mut out = vec![];
  for (i, r) in s.0.iter_mut().enumerate() {
    match &mut r.body {
      Body::Ty(t) => sites_ty(t, i, &mut out),
      Body::Grp(e) => sites_ent(e, i, &mut out),
    }
  }
  out
}

fn mentions_any(t2: &Ty2, names: &[String]) -> bool {
  let hit = std::cell::Cell::new(false);
  walk_ty2(
    t2,
    &mut |e, _| {
      if let EntKind::Ref { name, .. } = &e.kind {
        if names.contains(name) {
          hit.set(true);
        }
      }
    },
    &mut |t1| {
      for x in [Some(&t1.t2), t1.op.as_ref().map(|o| &o.1)].into_iter().flatten() {
        if let Ty2::Name { name, .. } | Ty2::Unwrap { name, .. } | Ty2::ChoiceName { name, .. } = x {
          if names.contains(name) {
            hit.set(true);
          }
        }
      }
    },
  );
  if let Ty2::Name { name, .. } | Ty2::Unwrap { name, .. } | Ty2::ChoiceName { name, .. } = t2 {
    if names.contains(name) {
      hit.set(true);
    }
  }
  hit.get()
}


// ---------------------------------------------------------------------------------------
// mutable traversal of group entries (with the kind of container they sit in)
// ---------------------------------------------------------------------------------------

fn ents_ty(t: &mut Ty, rule: usize, f: &mut dyn FnMut(&mut Ent, bool, usize)) {
  for t1 in t.0.iter_mut() {
    ents_t2(&mut t1.t2, rule, f);
    if let Some((_, r)) = &mut t1.op {
      ents_t2(r, rule, f);
    }
  }
}

fn ents_t2(t2: &mut Ty2, rule: usize, f: &mut dyn FnMut(&mut Ent, bool, usize)) {
  match t2 {
    Ty2::Paren(t) => ents_ty(t, rule, f),
    Ty2::Map(g) => ents_grp(g, true, rule, f),
    Ty2::Arr(g) | Ty2::ChoiceInline(g) => ents_grp(g, false, rule, f),
    Ty2::Tag { ty, .. } => ents_ty(ty, rule, f),
    Ty2::Name { args, .. } | Ty2::Unwrap { args, .. } | Ty2::ChoiceName { args, .. } => {
      for a in args.iter_mut() {
        ents_t2(&mut a.t2, rule, f);
      }
    }
    _ => {}
  }
}

fn ents_grp(g: &mut Grp, in_map: bool, rule: usize, f: &mut dyn FnMut(&mut Ent, bool, usize)) {
  for gc in g.0.iter_mut() {
    for e in gc.iter_mut() {
      f(e, in_map, rule);
      match &mut e.kind {
        EntKind::Val { ty, .. } => ents_ty(ty, rule, f),
        EntKind::Inline(g2) => ents_grp(g2, in_map, rule, f),
        EntKind::Ref { .. } => {}
      }
    }
  }
}

fn for_each_ent(s: &mut Schema, f: &mut dyn FnMut(&mut Ent, bool, usize)) {
  for (i, r) in s.0.iter_mut().enumerate() {
    match &mut r.body {
      Body::Ty(t) => ents_ty(t, i, f),
      Body::Grp(e) => {
        // the body of a group rule can be used in arrays and in maps: treated as map context (the stricter one)
        f(e, true, i);
        match &mut e.kind {
          EntKind::Val { ty, .. } => ents_ty(ty, i, f),
          EntKind::Inline(g) => ents_grp(g, true, i, f),
          _ => {}
        }
      }
    }
  }
}

/// substitute generic parameters by arguments in a type / entry (capture is impossible: arguments are closed)
fn subst_t2(t2: &mut Ty2, params: &[String], args: &[Ty1]) {
  if let Ty2::Name { name, args: a } = t2 {
    if a.is_empty() {
      if let Some(i) = params.iter().position(|p| p == name) {
        let arg = &args[i];
        *t2 = if arg.op.is_none() { arg.t2.clone() } else { Ty2::Paren(Ty(vec![arg.clone()])) };
        return;
      }
    }
  }
  match t2 {
    Ty2::Name { args: a, .. } | Ty2::Unwrap { args: a, .. } | Ty2::ChoiceName { args: a, .. } => {
      for x in a.iter_mut() {
        subst_t1(x, params, args);
      }
    }
    Ty2::Paren(t) => subst_ty(t, params, args),
    Ty2::Map(g) | Ty2::Arr(g) | Ty2::ChoiceInline(g) => subst_grp(g, params, args),
    Ty2::Tag { ty, .. } => subst_ty(ty, params, args),
    _ => {}
  }
}

fn subst_t1(t1: &mut Ty1, params: &[String], args: &[Ty1]) {
  subst_t2(&mut t1.t2, params, args);
  if let Some((_, r)) = &mut t1.op {
    subst_t2(r, params, args);
  }
}

fn subst_ty(t: &mut Ty, params: &[String], args: &[Ty1]) {
  for t1 in t.0.iter_mut() {
    subst_t1(t1, params, args);
  }
}

fn subst_grp(g: &mut Grp, params: &[String], args: &[Ty1]) {
  for gc in g.0.iter_mut() {
    for e in gc.iter_mut() {
      subst_ent(e, params, args);
    }
  }
}

fn subst_ent(e: &mut Ent, params: &[String], args: &[Ty1]) {
  match &mut e.kind {
    EntKind::Val { key, ty } => {
      if let Some(Key::Arrow { t1, .. }) = key {
        subst_t1(t1, params, args);
      }
      subst_ty(ty, params, args);
    }
    EntKind::Ref { name, args: a } => {
      if a.is_empty() {
        if let Some(i) = params.iter().position(|p| p == name) {
          // a parameter used as a bare group entry stands for a type here (arguments are type1s)
          e.kind = EntKind::Val { key: None, ty: Ty(vec![args[i].clone()]) };
          return;
        }
      }
      for x in a.iter_mut() {
        subst_t1(x, params, args);
      }
    }
    EntKind::Inline(g) => subst_grp(g, params, args),
  }
}

fn fresh(s: &Schema, base: &str) -> String {
  let mut i = 0;
  loop {
    let n = if i == 0 { base.to_string() } else { format!("{}{}", base, i) };
    if !s.0.iter().any(|r| r.name == n) {
      return n;
    }
    i += 1;
  }
}

const FANCY: &[&str] = &["alpha", "b-2", "c.d", "@e", "_f", "g$1", "Zeta", "long-name-7", "x.y-z", "q9", "r_s", "T-type"];

/// Apply one refactoring; returns its name, or None when it was not applicable at the drawn position.
fn refactor(t: &mut Tape, s: &mut Schema, kinds: &[bool; 10]) -> Option<&'static str> {
  let k = {
    let w: Vec<u32> = kinds.iter().map(|b| if *b { 10 } else { 0 }).collect();
    t.weighted(&w)
  };
  match k {
    // 0 extract a type2 into a fresh rule
    0 => {
      let params_of: Vec<Vec<String>> = s.0.iter().map(|r| r.params.clone()).collect();
      let name = fresh(s, "xt");
      let mut sites = all_sites(s);
      if sites.is_empty() {
        return None;
      }
      let i = t.below(sites.len());
      let site = &mut sites[i];
      if !site.plain_position || matches!(site.t2, Ty2::Name { .. }) || mentions_any(site.t2, &params_of[site.rule]) {
        return None;
      }
      // a type2 that starts an array entry with '(' would read as a group: only extract non-paren nodes
      let body = std::mem::replace(site.t2, Ty2::Name { name: name.clone(), args: vec![] });
      drop(sites);
      s.0.push(RuleM { name, params: vec![], alt: false, body: Body::Ty(Ty::one(body)) });
      Some("extract_type")
    }
    // 1 inline a non-recursive, non-generic, single-definition type rule
    1 => {
      let defs: Vec<(String, Ty)> = s
        .0
        .iter()
        .filter(|r| r.params.is_empty() && !r.alt && s.0.iter().filter(|q| q.name == r.name).count() == 1)
        .filter_map(|r| match &r.body {
          Body::Ty(ty) => Some((r.name.clone(), ty.clone())),
          _ => None,
        })
        .filter(|(n, ty)| !mentions_any(&Ty2::Paren(ty.clone()), &[n.clone()]))
        .collect();
      if defs.is_empty() {
        return None;
      }
      let mut sites = all_sites(s);
      let cands: Vec<usize> = sites
        .iter()
        .enumerate()
        .filter(|(_, st)| !st.entry_head && matches!(&*st.t2, Ty2::Name { name, args } if args.is_empty() && defs.iter().any(|d| &d.0 == name)))
        .map(|(i, _)| i)
        .collect();
      if cands.is_empty() {
        return None;
      }
      let i = *t.pick(&cands);
      if let Ty2::Name { name, .. } = &*sites[i].t2 {
        let ty = defs.iter().find(|d| &d.0 == name).unwrap().1.clone();
        *sites[i].t2 = Ty2::Paren(ty);
      }
      Some("inline_rule")
    }
    // 2 route a type2 through an identity generic: e  ->  idg<e>, idg<X> = X
    2 => {
      let params_of: Vec<Vec<String>> = s.0.iter().map(|r| r.params.clone()).collect();
      // a generic rule inside a reference cycle overflows the stack (open finding C05-F3): the expression that is
      // routed through the identity generic must not refer to any rule
      let rule_names: Vec<String> = s.0.iter().map(|r| r.name.clone()).collect();
      let mut sites = all_sites(s);
      if sites.is_empty() {
        return None;
      }
      let i = t.below(sites.len());
      let site = &mut sites[i];
      if !site.plain_position || mentions_any(site.t2, &params_of[site.rule]) || mentions_any(site.t2, &rule_names) {
        return None;
      }
      let e = std::mem::replace(site.t2, Ty2::Any);
      *site.t2 = Ty2::Name { name: "idg".into(), args: vec![Ty1::plain(e)] };
      drop(sites);
      if !s.0.iter().any(|r| r.name == "idg") {
        s.0.push(RuleM { name: "idg".into(), params: vec!["X".into()], alt: false, body: Body::Ty(Ty::name("X")) });
      }
      Some("generic_identity")
    }
    // 3 split a type choice into base + /= increments (or a group rule's // into //=)
    3 => {
      let cands: Vec<usize> = s
        .0
        .iter()
        .enumerate()
        .filter(|(_, r)| r.params.is_empty() && !r.alt && s.0.iter().filter(|q| q.name == r.name).count() == 1)
        .filter(|(_, r)| match &r.body {
          Body::Ty(ty) => ty.0.len() >= 2,
          _ => false,
        })
        .map(|(i, _)| i)
        .collect();
      if cands.is_empty() {
        return None;
      }
      let i = *t.pick(&cands);
      let name = s.0[i].name.clone();
      let alts = match &mut s.0[i].body {
        Body::Ty(ty) => {
          let cut = 1 + t.below(ty.0.len() - 1);
          ty.0.split_off(cut)
        }
        _ => return None,
      };
      // increments go to the end of the document (any distance from the base is allowed)
      for a in alts {
        s.0.push(RuleM { name: name.clone(), params: vec![], alt: true, body: Body::Ty(Ty(vec![a])) });
      }
      Some("split_into_increments")
    }
    // 4 route a rule's type choice through a socket
    4 => {
      let cands: Vec<usize> = s
        .0
        .iter()
        .enumerate()
        .filter(|(_, r)| r.params.is_empty() && !r.alt && s.0.iter().filter(|q| q.name == r.name).count() == 1 && matches!(r.body, Body::Ty(_)))
        .map(|(i, _)| i)
        .collect();
      if cands.is_empty() {
        return None;
      }
      let i = *t.pick(&cands);
      let sock = fresh(s, "$plug");
      let alts = match &mut s.0[i].body {
        Body::Ty(ty) => std::mem::replace(&mut ty.0, vec![Ty1::plain(Ty2::Name { name: sock.clone(), args: vec![] })]),
        _ => return None,
      };
      for a in alts {
        s.0.push(RuleM { name: sock.clone(), params: vec![], alt: true, body: Body::Ty(Ty(vec![a])) });
      }
      Some("through_socket")
    }
    // 5 redundant parentheses
    5 => {
      let mut sites = all_sites(s);
      if sites.is_empty() {
        return None;
      }
      let i = t.below(sites.len());
      let site = &mut sites[i];
      if !site.plain_position || site.entry_head {
        return None;
      }
      let e = std::mem::replace(site.t2, Ty2::Any);
      *site.t2 = Ty2::Paren(Ty::one(e));
      Some("redundant_parentheses")
    }
    // 6 consistent renaming of all rules (not sockets, not generic parameters)
    6 => {
      let mut names: Vec<String> = vec![];
      for r in &s.0 {
        if !r.name.starts_with('$') && !names.contains(&r.name) {
          names.push(r.name.clone());
        }
      }
      let off = t.below(FANCY.len());
      let map: Vec<(String, String)> =
        names.iter().enumerate().map(|(i, n)| (n.clone(), format!("{}{}", FANCY[(i + off) % FANCY.len()], if i >= FANCY.len() { "x" } else { "" }))).collect();
      let ren = |n: &mut String, params: &[String]| {
        if params.contains(n) {
          return;
        }
        if let Some((_, to)) = map.iter().find(|(f, _)| f == n) {
          *n = to.clone();
        }
      };
      let params_of: Vec<Vec<String>> = s.0.iter().map(|r| r.params.clone()).collect();
      for r in s.0.iter_mut() {
        ren(&mut r.name, &[]);
      }
      // references
      fn ren_ent(e: &mut Ent, f: &dyn Fn(&mut String)) {
        match &mut e.kind {
          EntKind::Val { key, ty } => {
            if let Some(Key::Arrow { t1, .. }) = key {
              ren_t1(t1, f);
            }
            ren_ty(ty, f);
          }
          EntKind::Ref { name, args } => {
            f(name);
            for a in args {
              ren_t1(a, f);
            }
          }
          EntKind::Inline(g) => ren_g(g, f),
        }
      }
      fn ren_g(g: &mut Grp, f: &dyn Fn(&mut String)) {
        for gc in g.0.iter_mut() {
          for e in gc.iter_mut() {
            ren_ent(e, f);
          }
        }
      }
      fn ren_ty(t: &mut Ty, f: &dyn Fn(&mut String)) {
        for t1 in t.0.iter_mut() {
          ren_t1(t1, f);
        }
      }
      fn ren_t1(t1: &mut Ty1, f: &dyn Fn(&mut String)) {
        ren_t2(&mut t1.t2, f);
        if let Some((_, r)) = &mut t1.op {
          ren_t2(r, f);
        }
      }
      fn ren_t2(t2: &mut Ty2, f: &dyn Fn(&mut String)) {
        match t2 {
          Ty2::Name { name, args } | Ty2::Unwrap { name, args } | Ty2::ChoiceName { name, args } => {
            f(name);
            for a in args {
              ren_t1(a, f);
            }
          }
          Ty2::Paren(t) => ren_ty(t, f),
          Ty2::Map(g) | Ty2::Arr(g) | Ty2::ChoiceInline(g) => ren_g(g, f),
          Ty2::Tag { ty, .. } => ren_ty(ty, f),
          _ => {}
        }
      }
      for (i, r) in s.0.iter_mut().enumerate() {
        let ps = params_of[i].clone();
        let f = |n: &mut String| ren(n, &ps);
        match &mut r.body {
          Body::Ty(t) => ren_ty(t, &f),
          Body::Grp(e) => ren_ent(e, &f),
        }
      }
      Some("rename_rules")
    }
    // 8 an inline group choice in an array -> a group rule with //= increments (or a $$socket)
    8 => {
      let name_plain = fresh(s, "gx");
      let use_socket = t.chance(1, 3);
      let gname = if use_socket { fresh(s, "$$gsock") } else { name_plain };
      let mut cands = 0usize;
      for_each_ent(s, &mut |e, in_map, _| {
        if !in_map && e.occ.is_none() && matches!(&e.kind, EntKind::Inline(g) if g.0.len() >= 2) {
          cands += 1;
        }
      });
      if cands == 0 {
        return None;
      }
      let pick = t.below(cands);
      let params_of: Vec<Vec<String>> = s.0.iter().map(|r| r.params.clone()).collect();
      let mut idx = 0usize;
      let mut taken: Option<Grp> = None;
      let gn = gname.clone();
      for_each_ent(s, &mut |e, in_map, rule| {
        if !in_map && e.occ.is_none() && matches!(&e.kind, EntKind::Inline(g) if g.0.len() >= 2) {
          if idx == pick && taken.is_none() {
            if let EntKind::Inline(g) = &e.kind {
              // the choices must not use generic parameters of the enclosing rule
              let probe = Ty2::Arr(g.clone());
              // every alternative must read as a group entry, not as a parenthesised type (grammar ambiguity)
              let unambiguous = g.0.iter().all(|gc| {
                let body = if gc.len() == 1 { gc[0].clone() } else { Ent { occ: None, kind: EntKind::Inline(Grp(vec![gc.clone()])) } };
                vcore::syngen::unambiguous_group_entry(&body)
              });
              if unambiguous && !mentions_any(&probe, &params_of[rule]) {
                taken = Some(g.clone());
                e.kind = EntKind::Ref { name: gn.clone(), args: vec![] };
              }
            }
          }
          idx += 1;
        }
      });
      let g = taken?;
      for (i, gc) in g.0.into_iter().enumerate() {
        // a single entry is written as it is (keeping its own occurrence), several entries as ( ... )
        let body = if gc.len() == 1 { gc.into_iter().next().unwrap() } else { Ent { occ: None, kind: EntKind::Inline(Grp(vec![gc])) } };
        s.0.push(RuleM { name: gname.clone(), params: vec![], alt: use_socket || i > 0, body: Body::Grp(body) });
      }
      Some("group_choice_into_increments")
    }
    // 9 substitute a generic instantiation by hand
    9 => {
      let gens: Vec<RuleM> = s
        .0
        .iter()
        .filter(|r| !r.params.is_empty() && s.0.iter().filter(|q| q.name == r.name).count() == 1)
        .filter(|r| {
          let probe = match &r.body {
            Body::Ty(t) => Ty2::Paren(t.clone()),
            Body::Grp(e) => Ty2::Arr(Grp(vec![vec![e.clone()]])),
          };
          !mentions_any(&probe, &[r.name.clone()])
        })
        .cloned()
        .collect();
      if gens.is_empty() {
        return None;
      }
      // type positions
      let mut done: Option<&'static str> = None;
      {
        let mut sites = all_sites(s);
        let cands: Vec<usize> = sites
          .iter()
          .enumerate()
          .filter(|(_, st)| !st.entry_head && matches!(&*st.t2, Ty2::Name { name, args } if !args.is_empty() && args.iter().all(|a| a.op.is_none() && !matches!(a.t2, Ty2::Paren(_))) && gens.iter().any(|g| &g.name == name && matches!(g.body, Body::Ty(_)) && g.params.len() == args.len())))
          .map(|(i, _)| i)
          .collect();
        if !cands.is_empty() && t.flag() {
          let i = *t.pick(&cands);
          if let Ty2::Name { name, args } = &*sites[i].t2 {
            let g = gens.iter().find(|g| &g.name == name).unwrap();
            if let Body::Ty(body) = &g.body {
              let mut b = body.clone();
              subst_ty(&mut b, &g.params, args);
              *sites[i].t2 = Ty2::Paren(b);
              done = Some("substitute_generic_type");
            }
          }
        }
      }
      if done.is_some() {
        return done;
      }
      // group references
      let mut cands = 0usize;
      let is_cand = |e: &Ent| matches!(&e.kind, EntKind::Ref { name, args } if !args.is_empty() && args.iter().all(|a| a.op.is_none() && !matches!(a.t2, Ty2::Paren(_))) && gens.iter().any(|g| &g.name == name && matches!(g.body, Body::Grp(_)) && g.params.len() == args.len()));
      for_each_ent(s, &mut |e, _, _| {
        if is_cand(e) {
          cands += 1;
        }
      });
      if cands == 0 {
        return None;
      }
      let pick = t.below(cands);
      let mut idx = 0usize;
      for_each_ent(s, &mut |e, _, _| {
        if is_cand(e) {
          if idx == pick {
            if let EntKind::Ref { name, args } = &e.kind {
              let g = gens.iter().find(|g| &g.name == name).unwrap();
              if let Body::Grp(body) = &g.body {
                let mut b = body.clone();
                subst_ent(&mut b, &g.params, args);
                e.kind = EntKind::Inline(Grp(vec![vec![b]]));
                done = Some("substitute_generic_group");
              }
            }
          }
          idx += 1;
        }
      });
      done
    }
    // 7 add unrelated rules / reorder rules after the first / delete unreachable rules
    _ => {
      match t.below(3) {
        0 => {
          let n = fresh(s, "unused");
          let pos = 1 + t.below(s.0.len());
          s.0.insert(pos.min(s.0.len()), RuleM { name: n, params: vec![], alt: false, body: Body::Ty(Ty::name(*t.pick(&["int", "tstr", "bool"]))) });
          Some("add_unrelated_rule")
        }
        1 => {
          if s.0.len() < 3 {
            return None;
          }
          // keep the relative order of the definitions of one name (increments are ordered alternatives)
          let i = 1 + t.below(s.0.len() - 1);
          let j = 1 + t.below(s.0.len() - 1);
          if i == j || s.0[i].name == s.0[j].name {
            return None;
          }
          let (a, b) = (i.min(j), i.max(j));
          let (na, nb) = (s.0[a].name.clone(), s.0[b].name.clone());
          if s.0[a..=b].iter().filter(|r| r.name == na).count() > 1 || s.0[a..=b].iter().filter(|r| r.name == nb).count() > 1 {
            return None;
          }
          s.0.swap(a, b);
          Some("reorder_rules")
        }
        _ => {
          // delete a rule that nothing reachable from the root refers to
          let mut reach: Vec<String> = vec![s.0[0].name.clone()];
          let mut changed = true;
          while changed {
            changed = false;
            for r in s.0.iter() {
              if !reach.contains(&r.name) {
                continue;
              }
              let probe = match &r.body {
                Body::Ty(t) => Ty2::Paren(t.clone()),
                Body::Grp(e) => Ty2::Arr(Grp(vec![vec![e.clone()]])),
              };
              for q in s.0.iter() {
                if !reach.contains(&q.name) && mentions_any(&probe, &[q.name.clone()]) {
                  reach.push(q.name.clone());
                  changed = true;
                }
              }
            }
          }
          let dead: Vec<usize> = s.0.iter().enumerate().filter(|(i, r)| *i > 0 && !reach.contains(&r.name)).map(|(i, _)| i).collect();
          if dead.is_empty() {
            return None;
          }
          let i = *t.pick(&dead);
          let name = s.0[i].name.clone();
          s.0.retain(|r| r.name != name);
          Some("delete_unreachable_rule")
        }
      }
    }
  }
}

/// some group rule's body is nothing but a reference to another group rule: `g = ( h )`, `g<T> = ( h<int> )`
pub fn group_rule_is_alias_of_group(s: &Schema) -> bool {
  fn sole_ref(e: &Ent) -> bool {
    match &e.kind {
      EntKind::Ref { .. } => true,
      EntKind::Val { key: None, ty } => ty.0.len() == 1 && ty.0[0].op.is_none() && matches!(ty.0[0].t2, Ty2::Name { .. }),
      EntKind::Inline(g) => g.0.len() == 1 && g.0[0].len() == 1 && sole_ref(&g.0[0][0]),
      _ => false,
    }
  }
  s.0.iter().any(|r| matches!(&r.body, Body::Grp(e) if sole_ref(e)))
}

pub fn gen_opts(ctx: &Ctx, cborm: bool) -> GenOpts {
  let mut o = if cborm { crate::c02::gen_opts(ctx) } else { crate::c04::gen_opts(ctx) };
  if !cborm {
    o.extras = false;
  }
  o.generics = true;
  o.generic_self_nesting = !ctx.excl("generic_self_nested_instantiation");
  o.generic_recursion = !ctx.excl("generic_rule_in_reference_cycle");
  o.generic_param_forwarding = !ctx.excl("generic_parameter_forwarding");
  o
}

fn validate(jsonm: bool, schema: &str, doc: &CVal) -> V {
  if jsonm {
    calls::validate_json(schema, &jsonw::to_json(doc))
  } else {
    calls::validate_cbor(schema, &cbor::encode(doc))
  }
}

pub fn replay(_ctx: &Ctx, case: &J) -> Result<(), String> {
  let jsonm = case["validator"].as_str() == Some("json");
  let a = case["schema"].as_str().ok_or("no schema")?;
  let b = case["refactored"].as_str().ok_or("no refactored")?;
  let (ra, rb) = if jsonm {
    let d = case["json"].as_str().ok_or("no json")?;
    (calls::validate_json_local(a, d, None), calls::validate_json_local(b, d, None))
  } else {
    let d = cbor::unhex(case["cbor"].as_str().ok_or("no cbor")?);
    (calls::validate_cbor_local(a, &d, None), calls::validate_cbor_local(b, &d, None))
  };
  if ra.accepts() == rb.accepts() {
    Ok(())
  } else {
    Err(format!("original: {} ; refactored: {}", ra.brief(), rb.brief()))
  }
}

pub fn run(ctx: &Ctx) {
  ctx.set_rule(
    "cases: a generated schema S (shared feature set incl. generic rules) and a document d (sample / near miss / \
     unrelated); R(S) = 1-3 composed refactorings drawn from: extract a type expression into a fresh rule, inline a \
     non-recursive rule, route an expression through an identity generic, split a type choice into base + /= \
     increments, route a rule through a $socket, add redundant parentheses, rename all rules injectively (hyphen, dot, \
     @, _, $ names), add / reorder / delete unrelated rules. Oracle: metamorphic - class(validate(S,d)) = \
     class(validate(R(S),d)) for the JSON and for the CBOR validator. Non-trivial: R(S) differs textually from S and the \
     document is a composite or is accepted; distinct (S, R(S), d).",
  );
  calls::set_isolated(true, 5_000);
  ctx.assume("validator calls are isolated in worker processes; crashed / hung calls are tallied and the case skipped (C05 judges them)");
  let n = ctx.tier.pick(50_000u64, 1_200_000u64);
  let mut kinds = [true; 10];
  if let Ok(off) = std::env::var("VERIF_REFACTOR_OFF") {
    for x in off.split(',') {
      if let Ok(i) = x.parse::<usize>() {
        if i < 10 {
          kinds[i] = false;
        }
      }
    }
  }
  let x_ctl = ctx.excl("control_target_rule_with_increments");
  let x_self_nest = ctx.excl("generic_self_nested_instantiation");
  let x_nested = ctx.excl("cbor_optional_table_member_in_nested_map");
  let x_dup = ctx.excl("cbor_duplicate_literal_keys_greedy");
  let x_alias = ctx.excl("group_rule_aliasing_a_group_rule");
  let x_fwd = ctx.excl("generic_parameter_forwarding");
  let x_gen2 = ctx.excl("generic_rule_instantiated_with_different_arguments");
  for (jsonm, name) in [(true, "refactor_json"), (false, "refactor_cbor")] {
    let o = gen_opts(ctx, !jsonm);
    search(ctx, name, n, 460, |t: &mut Tape, st: &mut Stats| {
      let s = SemGen::new(t, &o).schema();
      let mut r = s.clone();
      let mut applied: Vec<&'static str> = vec![];
      let k = 1 + t.below(3);
      let mut kinds_now = kinds;
      for _ in 0..k {
        if let Some(nm) = refactor(t, &mut r, &kinds_now) {
          applied.push(nm);
          if nm == "generic_identity" && x_self_nest {
            // idg< .. idg< .. > .. > is an instantiation inside its own argument list (open finding C05-F2)
            kinds_now[2] = false;
            st.exclude("generic_self_nested_instantiation");
          }
        }
      }
      let text = render(&s);
      let text2 = render(&r);
      if applied.is_empty() || text == text2 {
        st.count("no_refactoring_applied(trivial)");
        return Ok(());
      }
      for i in 0..4 {
        let mut sm = Sampler::new(&s, t, jsonm);
        let base = sm.root();
        let doc = match i {
          0 | 1 => base,
          2 => near_miss(t, &base, jsonm).0,
          _ => {
            let mut sm = Sampler::new(&s, t, jsonm);
            sm.any_value(2)
          }
        };
        if jsonm && !jsonw::is_json_model(&doc) {
          continue;
        }
        if !jsonm && (!crate::c02::in_cbor_model(&doc) || crate::c02::has_dup_keys(&doc) || (!o.undefined && crate::c02::has_undefined(&doc))) {
          continue;
        }
        st.eval();
        let a = validate(jsonm, &text, &doc);
        let b = validate(jsonm, &text2, &doc);
        if matches!(a, V::Abort(_) | V::Hang | V::Panic(_)) || matches!(b, V::Abort(_) | V::Hang | V::Panic(_)) {
          st.crash(&format!("{}|{}", a.class(), b.class()));
          continue;
        }
        for nm in &applied {
          st.count(&format!("refactoring:{}", nm));
        }
        if a.accepts() == b.accepts() {
          st.count(if a.accepts() { "both_accept" } else { "both_reject" });
          if a.accepts() || matches!(doc, CVal::Array(_) | CVal::Map(_)) {
            let key = (&text, &text2, doc.diag());
            if st.nontrivial(&key) {
              st.sample(&key, || json!({"schema": text, "refactored": text2, "refactorings": applied, "document": doc.diag(), "verdict": a.class()}));
            }
          }
          continue;
        }
        // open findings
        if x_ctl && applied.iter().any(|x| *x == "split_into_increments" || *x == "through_socket" || *x == "extract_type" || *x == "inline_rule")
          && (crate::c04::control_target_has_increments(&s) || crate::c04::control_target_has_increments(&r))
        {
          st.exclude("control_target_rule_with_increments");
          continue;
        }
        if x_dup && (crate::c04::dup_keys_after_expansion(&s) || crate::c04::dup_keys_after_expansion(&r)) {
          st.exclude("cbor_duplicate_literal_keys_greedy");
          continue;
        }
        if x_alias && group_rule_is_alias_of_group(&s) {
          st.exclude("group_rule_aliasing_a_group_rule");
          continue;
        }
        if x_nested && !jsonm && crate::c02::nested_opt_table(&s) {
          st.exclude("cbor_optional_table_member_in_nested_map");
          continue;
        }
        if x_gen2 && (crate::c04::generic_rule_instantiated_twice(&s) || crate::c04::generic_rule_instantiated_twice(&r)) {
          st.exclude("generic_rule_instantiated_with_different_arguments");
          continue;
        }
        if survey_on() {
          survey_add(&format!("{} {:?} S={}", name, applied, a.class()), &b, format!("{:?} => {:?} doc {}", text, text2, doc.diag()));
          continue;
        }
        return Err(Fail::new(
          format!(
            "refactoring {:?} changed the verdict of the {} validator on {}: original {:?} -> {} ; refactored {:?} -> {}",
            applied,
            if jsonm { "JSON" } else { "CBOR" },
            doc.diag(),
            text,
            a.brief(),
            text2,
            b.brief()
          ),
          json!({"check": name, "validator": if jsonm { "json" } else { "cbor" }, "schema": text, "refactored": text2, "refactorings": applied,
                 "json": jsonw::to_json(&doc), "cbor": cbor::hex(&cbor::encode(&doc)), "document": doc.diag()}),
        ));
      }
      Ok(())
    });
  }
  // nested generic rules: instantiation vs substitution by hand, two levels deep
  for (jsonm, name) in [(true, "nested_generics_json"), (false, "nested_generics_cbor")] {
    search(ctx, name, n / 3, 200, |t: &mut Tape, st: &mut Stats| {
      let leaf = |t: &mut Tape| -> Ty1 {
        match t.below(6) {
          0 => Ty1::plain(Ty2::Name { name: "int".into(), args: vec![] }),
          1 => Ty1::plain(Ty2::Name { name: "tstr".into(), args: vec![] }),
          2 => Ty1::plain(Ty2::Name { name: "bool".into(), args: vec![] }),
          3 => Ty1::plain(Ty2::Lit(Lit::int(t.range(0, 9) as i128))),
          4 => Ty1::plain(Ty2::Lit(Lit::text(*t.pick(&["a", "b", ""])))),
          _ => Ty1::plain(Ty2::Name { name: "nil".into(), args: vec![] }),
        }
      };
      let pname = |i: usize| Ty::name(["T", "U", "V"][i]);
      // inner<U> = ( k: U, ... ) ; outer<T> = ( ..., inner<B>, ..., k: T, ... ) ; root = [ outer<A> ] or { outer<A> }
      let same_names = t.chance(1, 3);
      let in_map = t.chance(1, 3);
      let (pi, po) = if same_names { (0usize, 0usize) } else { (1, 0) };
      let keys = ["a", "b", "c", "d", "e", "f"];
      let mut kidx = 0;
      let mut key = || {
        kidx += 1;
        Key::Bare(keys[kidx - 1].to_string())
      };
      let mut inner_ents = vec![];
      for _ in 0..1 + t.below(2) {
        let ty = if t.chance(2, 3) { pname(pi) } else { Ty(vec![leaf(t)]) };
        inner_ents.push(Ent { occ: None, kind: EntKind::Val { key: Some(key()), ty } });
      }
      let b = leaf(t);
      let a = leaf(t);
      let mut outer_ents = vec![];
      let pos = t.below(3);
      for i in 0..3 {
        if i == pos {
          outer_ents.push(Ent { occ: None, kind: EntKind::Ref { name: "inner".into(), args: vec![b.clone()] } });
        } else {
          let ty = if t.chance(2, 3) { pname(po) } else { Ty(vec![leaf(t)]) };
          outer_ents.push(Ent { occ: None, kind: EntKind::Val { key: Some(key()), ty } });
        }
      }
      let inner = RuleM { name: "inner".into(), params: vec![["T", "U", "V"][pi].into()], alt: false, body: Body::Grp(Ent { occ: None, kind: EntKind::Inline(Grp(vec![inner_ents.clone()])) }) };
      let outer = RuleM { name: "outer".into(), params: vec![["T", "U", "V"][po].into()], alt: false, body: Body::Grp(Ent { occ: None, kind: EntKind::Inline(Grp(vec![outer_ents.clone()])) }) };
      let use_ent = Ent { occ: None, kind: EntKind::Ref { name: "outer".into(), args: vec![a.clone()] } };
      let container = |e: Ent| if in_map { Ty2::Map(Grp(vec![vec![e]])) } else { Ty2::Arr(Grp(vec![vec![e]])) };
      let s1 = Schema(vec![
        RuleM { name: "root".into(), params: vec![], alt: false, body: Body::Ty(Ty::one(container(use_ent))) },
        outer.clone(),
        inner.clone(),
      ]);
      // by hand
      let mut inner_sub = Ent { occ: None, kind: EntKind::Inline(Grp(vec![inner_ents])) };
      subst_ent(&mut inner_sub, &[["T", "U", "V"][pi].to_string()], &[b.clone()]);
      let outer_sub: Vec<Ent> = outer_ents
        .iter()
        .map(|e| match &e.kind {
          EntKind::Ref { .. } => inner_sub.clone(),
          _ => {
            let mut x = e.clone();
            subst_ent(&mut x, &[["T", "U", "V"][po].to_string()], &[a.clone()]);
            x
          }
        })
        .collect();
      let s2 = Schema(vec![RuleM {
        name: "root".into(),
        params: vec![],
        alt: false,
        body: Body::Ty(Ty::one(container(Ent { occ: None, kind: EntKind::Inline(Grp(vec![outer_sub])) }))),
      }]);
      let (text, text2) = (render(&s1), render(&s2));
      for i in 0..3 {
        let mut sm = Sampler::new(&s2, t, jsonm);
        let base = sm.root();
        let doc = if i == 0 { base } else { near_miss(t, &base, jsonm).0 };
        if jsonm && !jsonw::is_json_model(&doc) {
          continue;
        }
        if !jsonm && (!crate::c02::in_cbor_model(&doc) || crate::c02::has_dup_keys(&doc)) {
          continue;
        }
        st.eval();
        let ra = validate(jsonm, &text, &doc);
        let rb = validate(jsonm, &text2, &doc);
        if matches!(ra, V::Abort(_) | V::Hang | V::Panic(_)) || matches!(rb, V::Abort(_) | V::Hang | V::Panic(_)) {
          st.crash(&format!("{}|{}", ra.class(), rb.class()));
          if same_names && x_fwd {
            st.exclude("generic_parameter_forwarding");
          }
          continue;
        }
        st.count(if in_map { "context:map" } else { "context:array" });
        if ra.accepts() == rb.accepts() {
          st.count(if ra.accepts() { "both_accept" } else { "both_reject" });
          let key = (&text, doc.diag());
          if st.nontrivial(&key) {
            st.sample(&key, || json!({"schema": text, "substituted_by_hand": text2, "document": doc.diag(), "verdict": ra.class()}));
          }
          continue;
        }
        if survey_on() {
          survey_add(&format!("{} S={}", name, ra.class()), &rb, format!("{:?} => {:?} doc {}", text, text2, doc.diag()));
          continue;
        }
        return Err(Fail::new(
          format!("nested generic instantiation differs from substitution by hand ({} validator, document {}): {:?} -> {} ; {:?} -> {}", if jsonm { "JSON" } else { "CBOR" }, doc.diag(), text, ra.brief(), text2, rb.brief()),
          json!({"check": name, "validator": if jsonm { "json" } else { "cbor" }, "schema": text, "refactored": text2, "refactorings": ["substitute_nested_generics"],
                 "json": jsonw::to_json(&doc), "cbor": cbor::hex(&cbor::encode(&doc)), "document": doc.diag()}),
        ));
      }
      Ok(())
    });
  }
  if survey_on() {
    survey_dump(ctx);
  }
}
