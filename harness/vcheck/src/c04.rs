//! C04 — JSON and CBOR validators give the same verdict on the same JSON-model data.
use crate::semcheck::{survey_add, survey_dump, survey_on};
use vcore::calls::{self, V};
use vcore::cbor::{self, CVal};
use vcore::cmodel::{render, Schema};
use vcore::jsonw;
use vcore::sample::{near_miss, Sampler};
use vcore::semgen::{GenOpts, SemGen};
use vcore::{json, search, Ctx, Fail, Stats, Tape, J};

pub fn gen_opts(ctx: &Ctx) -> GenOpts {
  let mut o = GenOpts::default();
  o.cbor = false;
  o.generics = true;
  o.and_within = true;
  o.extras = true;
  o.eq_on_bool = !ctx.excl("eq_ne_non_text_numeric_target");
  o.group_alias_bodies = !ctx.excl("group_rule_aliasing_a_group_rule");
  // map shapes on which one or both validators are known to be wrong (C01-F2..F6, C02-F2..F6)
  o.map_group_choices = !(ctx.excl("json_map_group_choice") || ctx.excl("cbor_map_group_choice"));
  o.map_group_occ = !(ctx.excl("json_map_group_occurrence") || ctx.excl("cbor_map_group_occurrence"));
  o.group_increments = !(ctx.excl("json_group_rule_increment_in_map") || ctx.excl("cbor_group_rule_increment_in_map"));
  o.table_not_last = !(ctx.excl("json_table_before_literal_key") || ctx.excl("cbor_table_before_literal_key"));
  o.noncut_keys = !ctx.excl("noncut_literal_key_falls_through");
  o.dup_literal_keys = !ctx.excl("cbor_duplicate_literal_keys_greedy");
  o.generic_self_nesting = !ctx.excl("generic_self_nested_instantiation");
  o.generic_recursion = !ctx.excl("generic_rule_in_reference_cycle");
  o.choice_from_named_group = !ctx.excl("choice_from_recursive_group");
  o.generic_param_forwarding = !ctx.excl("generic_parameter_forwarding");
  let _ = ctx;
  crate::c02::apply_env_off(&mut o);
  if let Ok(off) = std::env::var("VERIF_GEN_OFF") {
    for f in off.split(',') {
      match f {
        "extras" => o.extras = false,
        "generics" => o.generics = false,
        "and_within" => o.and_within = false,
        "unwrap" => o.unwrap = false,
        "choice_from_group" => o.choice_from_group = false,
        "sockets" => o.sockets = false,
        "regexp" => o.regexp = false,
        "default_ctl" => o.default_ctl = false,
        "cat_plus" => o.cat_plus = false,
        _ => {}
      }
    }
  }
  o
}

pub fn replay(_ctx: &Ctx, case: &J) -> Result<(), String> {
  let schema = case["schema"].as_str().ok_or("no schema")?;
  let doc = case["json"].as_str().ok_or("no json")?;
  let cb = cbor::unhex(case["cbor"].as_str().ok_or("no cbor")?);
  let a = calls::validate_json(schema, doc);
  let b = calls::validate_cbor(schema, &cb);
  if a.accepts() == b.accepts() {
    Ok(())
  } else {
    Err(format!("JSON validator: {} ; CBOR validator: {}", a.brief(), b.brief()))
  }
}

pub type Excl<'a> = &'a dyn Fn(&Schema, &CVal, &V, &V) -> Option<&'static str>;

pub fn eval(check: &str, schema: &Schema, text: &str, doc: &CVal, kind: &str, st: &mut Stats, excl: Excl) -> Result<(), Fail> {
  st.eval();
  if !jsonw::is_json_model(doc) {
    st.count("doc_outside_json_model");
    return Ok(());
  }
  if has_int(doc) && schema_has_float_construct(schema) {
    // the JSON reading of an integral number as a float is left open by C01; a CBOR integer is never a float
    st.count("int_vs_float_ambiguous(skipped)");
    return Ok(());
  }
  let jtxt = jsonw::to_json(doc);
  let cb = cbor::encode(doc);
  let a = calls::validate_json(text, &jtxt);
  let b = calls::validate_cbor(text, &cb);
  if let V::Panic(p) = &a {
    st.crash(&calls::panic_site(p));
  }
  if let V::Panic(p) = &b {
    st.crash(&calls::panic_site(p));
  }
  for (n, v) in [("json", &a), ("cbor", &b)] {
    if matches!(v, V::Abort(_) | V::Hang) {
      st.crash(&format!("{}:{}", v.class(), n));
      if survey_on() {
        survey_add(&format!("CRASH {}", n), v, format!("{:?} {}", text, jtxt));
      }
    }
  }
  if matches!(a, V::SchemaErr(_)) && matches!(b, V::SchemaErr(_)) {
    st.count("schema_rejected_by_both(trivial)");
    return Ok(());
  }
  if a.accepts() == b.accepts() {
    st.count(if a.accepts() { "both_accept" } else { "both_reject" });
    let shallow_reject = !a.accepts() && !matches!(doc, CVal::Array(_) | CVal::Map(_));
    if !shallow_reject {
      let key = (text, &jtxt);
      if st.nontrivial(&key) {
        st.sample(&key, || json!({"schema": text, "json": jtxt, "cbor": cbor::hex(&cb), "json_validator": a.class(), "cbor_validator": b.class(), "doc_kind": kind}));
      }
    }
    return Ok(());
  }
  if let Some(name) = excl(schema, doc, &a, &b) {
    st.exclude(name);
    return Ok(());
  }
  if survey_on() {
    let sig = V::OtherErr(format!("J={} | C={}", a.brief(), b.brief()));
    survey_add("differ", &sig, format!("{:?} {}", text, jtxt));
    return Ok(());
  }
  Err(Fail::new(
    format!("validators disagree on schema {:?} document {}: JSON validator {} ; CBOR validator {}", text, jtxt, a.brief(), b.brief()),
    json!({"check": check, "schema": text, "json": jtxt, "cbor": cbor::hex(&cb), "doc_kind": kind}),
  ))
}

pub fn run(ctx: &Ctx) {
  ctx.set_rule(
    "cases: a schema of the shared feature set (core fragment of C01 + generic rules, $sockets, ~unwrap, &group-to-choice, \
     .and/.within/.regexp/.default/.cat/.plus) x 8 JSON-model documents (samples, near misses, unrelated), each serialised \
     as JSON text and as CBOR (ints as major 0/1, floats, text, arrays, text-keyed maps in the same order). Oracle: \
     differential - validate_json_from_str and validate_cbor_from_slice must both accept or both not accept. Non-trivial: \
     distinct (schema, document) pairs that are not rejected at the top-level scalar kind; schema errors reported by both are trivial. \
     Sub-check array_controls: 8 array targets x {.eq,.ne,.default} x 2-3 array controllers (inline and through rule names) x 20 documents, exhaustively, same differential.",
  );
  calls::set_isolated(true, 10_000);
  ctx.assume("validator calls run in child worker processes (8 MiB stack, 10 s per call); an abort or hang counts as not-accept here and is tallied (C05 judges it)");
  let o = gen_opts(ctx);
  ctx.set_extra("generator_options", json!(format!("{:?}", o)));
  let x_dup = ctx.excl("cbor_duplicate_literal_keys_greedy");
  let x_nested = ctx.excl("cbor_optional_table_member_in_nested_map");
  let x_ctl_incr = ctx.excl("control_target_rule_with_increments");
  let x_gen2 = ctx.excl("generic_rule_instantiated_with_different_arguments");
  let excl = move |s: &Schema, _d: &CVal, _a: &V, _b: &V| -> Option<&'static str> {
    if x_dup && dup_keys_after_expansion(s) {
      return Some("cbor_duplicate_literal_keys_greedy");
    }
    if x_nested && crate::c02::nested_opt_table(s) {
      return Some("cbor_optional_table_member_in_nested_map");
    }
    if x_ctl_incr && control_target_has_increments(s) {
      return Some("control_target_rule_with_increments");
    }
    if x_gen2 && generic_rule_instantiated_twice(s) {
      return Some("generic_rule_instantiated_with_different_arguments");
    }
    None
  };
  let n = ctx.tier.pick(40_000u64, 1_000_000u64);
  search(ctx, "json_vs_cbor", n, 480, |t: &mut Tape, st: &mut Stats| {
    let schema = SemGen::new(t, &o).schema();
    let text = render(&schema);
    for i in 0..8 {
      let mut s = Sampler::new(&schema, t, true);
      let base = s.root();
      let (doc, kind) = match i % 8 {
        0 | 1 | 2 => (base, "sample"),
        7 => {
          let mut s = Sampler::new(&schema, t, true);
          (s.any_value(2), "unrelated")
        }
        _ => near_miss(t, &base, true),
      };
      eval("json_vs_cbor", &schema, &text, &doc, kind, st, &excl)?;
    }
    Ok(())
  });
  // control operators whose target is an array type: the operator has to travel through the array matcher into the
  // item validators of both validators (generated schemas put controls on scalars only)
  let pairs = array_control_pairs();
  let empty = Schema(vec![]);
  let no_excl = |_: &Schema, _: &CVal, _: &V, _: &V| -> Option<&'static str> { None };
  vcore::sweep(ctx, "array_controls", &pairs, |(text, d), st| eval("array_controls", &empty, text, d, "universe", st, &no_excl));
  if survey_on() {
    survey_dump(ctx);
  }
}

/// (schema text, document): 8 array targets x {.eq, .ne, .default} x 2-3 array controllers each x a universe of arrays
fn array_control_pairs() -> Vec<(String, CVal)> {
  let i = |n: i128| CVal::Int(n);
  let t = |s: &str| CVal::Text(s.to_string());
  let a = |v: Vec<CVal>| CVal::Array(v);
  let docs = vec![
    a(vec![]),
    a(vec![i(1)]),
    a(vec![i(3)]),
    a(vec![i(1), i(2)]),
    a(vec![i(3), i(4)]),
    a(vec![i(1), i(3)]),
    a(vec![i(3), i(2)]),
    a(vec![i(1), i(2), i(3)]),
    a(vec![i(1), t("x")]),
    a(vec![i(3), t("x")]),
    a(vec![i(1), t("y")]),
    a(vec![t("x")]),
    a(vec![t("x"), t("y")]),
    a(vec![a(vec![i(0), t("")])]),
    a(vec![a(vec![i(1), t("x")])]),
    a(vec![a(vec![i(0), t("")]), a(vec![i(1), t("x")])]),
    a(vec![i(1), a(vec![i(2)])]),
    a(vec![i(3), a(vec![i(4)])]),
    i(1),
    t("x"),
  ];
  let targets: [(&str, &[&str]); 8] = [
    ("[int, int]", &["[1, 2]", "[3, 2]"]),
    ("[* int]", &["[1, 2]", "[1]", "[]"]),
    ("[+ int]", &["[1, 2]", "[3]"]),
    ("[int, ? int]", &["[1, 2]", "[1]"]),
    ("[int, tstr]", &["[1, \"x\"]", "[3, \"y\"]"]),
    ("[* tstr]", &["[\"x\"]", "[\"x\", \"y\"]"]),
    ("[* [int, tstr]]", &["[[0, \"\"]]", "[[1, \"x\"]]"]),
    ("[int, [int]]", &["[1, [2]]", "[3, [4]]"]),
  ];
  let mut v = vec![];
  for (target, ctrls) in targets {
    for op in ["eq", "ne", "default"] {
      for c in ctrls {
        for form in 0..2 {
          let text = if form == 0 { format!("a = {} .{} {}\n", target, op, c) } else { format!("a = b .{} c\nb = {}\nc = {}\n", op, target, c) };
          for d in &docs {
            v.push((text.clone(), d.clone()));
          }
        }
      }
    }
  }
  v
}

pub fn has_int(v: &CVal) -> bool {
  match v {
    CVal::Int(_) => true,
    CVal::Array(a) => a.iter().any(has_int),
    CVal::Map(m) => m.iter().any(|(_, x)| has_int(x)),
    _ => false,
  }
}

/// float literal, float range / comparison, or the names float / number .. (anything that asks "is it a float?")
pub fn schema_has_float_construct(s: &Schema) -> bool {
  use vcore::cmodel::{any_ty1, Lit, Ty2};
  any_ty1(s, |t1| {
    let f2 = |t: &Ty2| match t {
      Ty2::Lit(Lit::Float { .. }) => true,
      Ty2::Name { name, .. } => name == "float",
      _ => false,
    };
    f2(&t1.t2) || t1.op.as_ref().map(|(_, r)| f2(r)).unwrap_or(false)
  })
}

fn lit_key_id(k: &vcore::cmodel::Key) -> Option<String> {
  use vcore::cmodel::{Key, Ty2};
  match k {
    Key::Bare(b) => Some(format!("{:?}", b)),
    Key::Val(l) => Some(l.spelling().to_string()),
    Key::Arrow { t1, .. } => match (&t1.t2, &t1.op) {
      (Ty2::Lit(l), None) => Some(l.spelling().to_string()),
      _ => None,
    },
  }
}

fn keys_of_ent(s: &Schema, e: &vcore::cmodel::Ent, depth: usize, out: &mut Vec<String>) {
  use vcore::cmodel::{Body, EntKind, Ty2};
  if depth > 6 {
    return;
  }
  let by_name = |name: &str, out: &mut Vec<String>| {
    for r in s.0.iter().filter(|r| r.name == name) {
      if let Body::Grp(ge) = &r.body {
        keys_of_ent(s, ge, depth + 1, out);
      }
    }
  };
  match &e.kind {
    EntKind::Val { key: Some(k), .. } => {
      if let Some(id) = lit_key_id(k) {
        out.push(id);
      }
    }
    EntKind::Val { key: None, ty } => {
      if let Some(t1) = ty.0.first() {
        if let (Ty2::Name { name, .. }, None) = (&t1.t2, &t1.op) {
          by_name(name, out);
        }
      }
    }
    EntKind::Ref { name, .. } => by_name(name, out),
    EntKind::Inline(g) => {
      for gc in &g.0 {
        for e2 in gc {
          keys_of_ent(s, e2, depth + 1, out);
        }
      }
    }
  }
}

/// some map group holds the same literal key twice once inline groups and group references are expanded
pub fn dup_keys_after_expansion(s: &Schema) -> bool {
  use vcore::cmodel::{any_ty1, Ty2};
  let check = |g: &vcore::cmodel::Grp| -> bool {
    for gc in &g.0 {
      let mut keys = vec![];
      for e in gc {
        keys_of_ent(s, e, 0, &mut keys);
      }
      keys.sort();
      if keys.windows(2).any(|w| w[0] == w[1]) {
        return true;
      }
    }
    false
  };
  let mut found = any_ty1(s, |t1| match &t1.t2 {
    Ty2::Map(g) => check(g),
    _ => false,
  });
  // group rules whose own body repeats a key
  for r in &s.0 {
    if let vcore::cmodel::Body::Grp(e) = &r.body {
      let mut keys = vec![];
      keys_of_ent(s, e, 0, &mut keys);
      keys.sort();
      if keys.windows(2).any(|w| w[0] == w[1]) {
        found = true;
      }
    }
  }
  found
}

/// a control operator whose target is the name of a rule that has /= increments
pub fn control_target_has_increments(s: &Schema) -> bool {
  use vcore::cmodel::{any_ty1, Op, Ty2};
  // target = name of a rule (prelude names are fine): the rule may be a type choice, directly or behind an alias
  any_ty1(s, |t1| match (&t1.t2, &t1.op) {
    (Ty2::Name { name, .. }, Some((Op::Ctl(_), _))) => s.0.iter().any(|r| &r.name == name),
    _ => false,
  })
}

/// the same generic group rule is referenced from map groups with two different argument lists
pub fn generic_rule_instantiated_twice(s: &Schema) -> bool {
  use vcore::cmodel::{walk_schema, EntKind, Ty, Ty2};
  // (name, arguments, inside a map group)
  let seen: std::cell::RefCell<Vec<(String, String, bool)>> = std::cell::RefCell::new(vec![]);
  let add = |name: &str, args: &[vcore::cmodel::Ty1], in_map: bool| {
    if !args.is_empty() {
      let r = vcore::cmodel::render_ty(&Ty(args.to_vec()));
      seen.borrow_mut().push((name.to_string(), r, in_map));
    }
  };
  walk_schema(
    s,
    &mut |e, in_map| match &e.kind {
      EntKind::Ref { name, args } => add(name, args, in_map),
      EntKind::Val { key: None, ty } => {
        if let Some(t1) = ty.0.first() {
          if let (Ty2::Name { name, args }, None) = (&t1.t2, &t1.op) {
            add(name, args, in_map);
          }
        }
      }
      _ => {}
    },
    &mut |_| {},
  );
  let v = seen.into_inner();
  // at least one of the two instantiations sits in a map group (the other may be in an array nested below it)
  v.iter().any(|(n, a, m)| v.iter().any(|(n2, a2, m2)| n == n2 && a != a2 && (*m || *m2)))
}
