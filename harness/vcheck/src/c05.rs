//! C05 — no entry point panics, aborts, overflows the stack or hangs on any input (<= 64 KiB, nesting <= 64).
use vcore::calls::{self, V};
use vcore::cbor::{self, CVal};
use vcore::cmodel::{render, render_with, TapeTrivia};
use vcore::jsonw;
use vcore::sample::{near_miss, Sampler};
use vcore::semgen::SemGen;
use vcore::syngen::{SynGen, SynOpts};
use vcore::{json, search, sweep, Ctx, Fail, Stats, Tape, J};

/// outcome class of one isolated call
fn crashed(v: &V) -> Option<String> {
  match v {
    V::Panic(p) => Some(format!("panic at {}", calls::panic_site(p))),
    V::Abort(s) => Some(format!("process abort ({})", s)),
    V::Hang => Some("no answer within the per-call limit".into()),
    _ => None,
  }
}

/// run one entry point in a worker; `kind` as understood by the worker protocol
fn call(kind: &str, schema: &str, doc: &[u8]) -> V {
  calls::worker_call(kind, schema, doc)
}

pub fn replay(_ctx: &Ctx, case: &J) -> Result<(), String> {
  calls::set_isolated(true, 8_000);
  calls::reset_worker();
  let entry = case["entry"].as_str().unwrap_or("");
  let schema = case["schema"].as_str().unwrap_or("");
  let v = match entry {
    "validate_json_from_str" => call("json", schema, case["json"].as_str().unwrap_or("").as_bytes()),
    "validate_cbor_from_slice" => call("cbor", schema, &cbor::unhex(case["cbor"].as_str().unwrap_or(""))),
    "validate_csv_from_str" => call("csv1", schema, case["csv"].as_str().unwrap_or("").as_bytes()),
    "parse" => match case["text_hex"].as_str() {
      Some(h) => call("parse", "", &cbor::unhex(h)),
      None => call("parse", "", case["text"].as_str().unwrap_or("").as_bytes()),
    },
    "decode_cbor" => call("decode", "", &cbor::unhex(case["cbor"].as_str().unwrap_or(""))),
    other => return Err(format!("unknown entry {}", other)),
  };
  calls::reset_worker();
  match crashed(&v) {
    Some(what) => Err(format!("{}: {}", entry, what)),
    None => Ok(()),
  }
}

fn bracket_depth(s: &[u8]) -> usize {
  let (mut d, mut m) = (0usize, 0usize);
  for b in s {
    match b {
      b'[' | b'{' | b'(' | b'<' => {
        d += 1;
        m = m.max(d);
      }
      b']' | b'}' | b')' | b'>' => d = d.saturating_sub(1),
      _ => {}
    }
  }
  m
}

fn report(check: &str, entry: &str, what: &str, replay: J) -> Fail {
  Fail::new(format!("{}: {} ({})", entry, what, check), replay)
}

/// panics whose location is listed by an open finding are tolerated (counted)
fn tolerated_panic(ctx: &Ctx, v: &V) -> Option<&'static str> {
  if let V::Panic(p) = v {
    let site = calls::panic_site(p);
    if ctx.excl("panic_uriparse") && site.contains("uriparse") {
      return Some("panic_uriparse");
    }
    if ctx.excl("debug_assert_map_entry_leftovers") && (p.contains("self.map_entry_candidates.is_none()") || p.contains("self.object_value.is_none()")) {
      return Some("debug_assert_map_entry_leftovers");
    }
  }
  None
}

pub fn run(ctx: &Ctx) {
  ctx.set_rule(
    "every call runs in a child worker process (8 MiB main-thread stack, 4 GiB address space, per-call limit 10 s) and must \
     answer Ok or Err: a panic, a process abort (stack overflow, allocation failure) or no answer within the limit is a \
     violation unless an open finding covers the shape. Inputs: (parse_format) grammar-sampled CDDL texts with comments, \
     single-edit mutants of them, random bytes and alias-cycle schemas -> CDDL::from_slice, cddl_from_str, Display, re-parse, \
     ParentVisitor::new; (validate) grammar-sampled (semantically arbitrary) and generated meaningful schemas x JSON / CBOR / \
     CSV documents incl. hostile ones (deep nesting <= 64, huge integers, lying CBOR heads, invalid UTF-8, unbalanced quotes); \
     (decode) mutated CBOR encodings -> decode_cbor; (growth) time of parse+format / validation along size families (nesting \
     depth, number of choices / entries / rules) must not grow geometrically. Non-trivial: the schema parses (validators), \
     or the input is a non-empty text / item; distinct inputs.",
  );
  ctx.assume("inputs are at most 64 KiB with nesting depth <= 64 (the property's bound); deeper inputs are skipped and counted");
  ctx.assume("a slow case is only a violation through the worker's per-call limit (10 s for inputs of a few hundred bytes) or the growth rule");
  calls::set_isolated(true, 10_000);
  let n = ctx.tier.pick(150_000u64, 2_000_000u64);

  // ------------------------------------------------------------------ parse / format / parent visitor
  let mut so = SynOpts::default();
  so.no_double_dash_ids = false;
  search(ctx, "parse_format", n, 260, |t: &mut Tape, st: &mut Stats| {
    let s = SynGen::new(t, &so).schema();
    let with_comments = t.flag();
    let mut tr = TapeTrivia::new(t, with_comments);
    tr.crlf = true;
    tr.tabs = true;
    let text = render_with(&s, &mut tr);
    let mut bytes = text.clone().into_bytes();
    let kind = match t.below(5) {
      0 | 1 => "sampled",
      2 => {
        // single edit
        if !bytes.is_empty() {
          let i = t.below(bytes.len());
          match t.below(3) {
            0 => {
              bytes.remove(i);
            }
            1 => bytes.insert(i, *t.pick(b"()[]{}<>/,:=*?+~&#.\"'; \n-$@0a")),
            _ => bytes[i] = *t.pick(b"()[]{}<>/,:=*?+~&#.\"'; \n-$@0a\xff\x00"),
          }
        }
        "mutant"
      }
      3 => {
        let k = t.below(bytes.len() + 1);
        bytes.truncate(k);
        "truncated"
      }
      _ => {
        let n = t.below(40);
        bytes = (0..n).map(|_| t.below(256) as u8).collect();
        "random_bytes"
      }
    };
    if bytes.len() > 65536 || bracket_depth(&bytes) > 64 {
      st.count("outside_bound(skipped)");
      return Ok(());
    }
    st.eval();
    st.count(kind);
    let v = call("parse", "", &bytes);
    st.count(&format!("outcome:{}", v.class()));
    if let Some(what) = crashed(&v) {
      if let Some(n) = tolerated_panic(ctx, &v) {
        st.exclude(n);
        return Ok(());
      }
      st.crash(&what);
      return Err(report("parse_format", "parse", &what, json!({"check": "parse_format", "entry": "parse", "text_hex": cbor::hex(&bytes), "text": String::from_utf8_lossy(&bytes)})));
    }
    if !bytes.is_empty() && st.nontrivial(&bytes) {
      st.sample(&bytes, || json!({"entry": "from_slice+cddl_from_str+Display+ParentVisitor", "input": String::from_utf8_lossy(&bytes), "kind": kind, "outcome": v.class()}));
    }
    Ok(())
  });

  // ------------------------------------------------------------------ validators on arbitrary schemas
  let mut sv = SynOpts::default();
  // open findings: generic instantiation in cycles / self nesting overflow the stack; alias cycles are handled below
  sv.generics = !(ctx.excl("generic_self_nested_instantiation") || ctx.excl("generic_rule_in_reference_cycle") || ctx.excl("generic_parameter_forwarding"));
  let o_json = crate::c04::gen_opts(ctx);
  let o_cbor = crate::c02::gen_opts(ctx);
  search(ctx, "validate", n, 420, |t: &mut Tape, st: &mut Stats| {
    let meaningful = t.chance(1, 2);
    let cborm = t.flag();
    let (text, doc): (String, CVal) = if t.chance(1, 8) {
      // reference cycles through group rules (guarded in the array matcher): 2-4 rules, each referring to the next
      let k = 2 + t.below(3);
      let mut text = String::new();
      let root = match t.below(4) {
        0 => "a = [ g0 ]",
        1 => "a = [ int , g0 ]",
        2 => "a = [ * g0 ]",
        _ => "a = [ g0 , * int ]",
      };
      text.push_str(root);
      text.push('\n');
      for i in 0..k {
        let next = format!("g{}", (i + 1) % k);
        let body = match t.below(5) {
          0 => format!("( {} , int )", next),
          1 => format!("( ? {} )", next),
          2 => format!("( int , {} )", next),
          3 => format!("( * {} , tstr )", next),
          _ => format!("( {} // int )", next),
        };
        text.push_str(&format!("g{} = {}\n", i, body));
      }
      let n = t.below(4);
      let doc = CVal::Array((0..n).map(|i| if i % 2 == 0 { CVal::Int(1) } else { CVal::text("x") }).collect());
      (text, doc)
    } else if meaningful {
      let s = SemGen::new(t, if cborm { &o_cbor } else { &o_json }).schema();
      let mut sm = Sampler::new(&s, t, !cborm);
      let base = sm.root();
      let d = match t.below(3) {
        0 => base,
        1 => near_miss(t, &base, !cborm).0,
        _ => {
          let mut sm = Sampler::new(&s, t, !cborm);
          sm.any_value(3)
        }
      };
      (render(&s), d)
    } else {
      let mut s = SynGen::new(t, &sv).schema();
      // references only to rules defined later would still allow cycles through names drawn from the pool; cycles
      // without generics are part of the domain ("cyclic rule references terminate")
      if ctx.excl("alias_cycle_stack_overflow") {
        break_cycles(&mut s);
      }
      let mut g = cbor::gen_cval(t, 3);
      if !cborm && !jsonw::is_json_model(&g) {
        g = CVal::Array(vec![CVal::Int(1), CVal::text("a")]);
      }
      (render(&s), g)
    };
    if text.len() > 65536 || bracket_depth(text.as_bytes()) > 64 || doc.depth() > 64 {
      st.count("outside_bound(skipped)");
      return Ok(());
    }
    st.eval();
    let (entry, v, rp): (&str, V, J) = if cborm {
      let (enc, _) = cbor::encode_knobs(&doc, t);
      let v = call("cbor", &text, &enc);
      ("validate_cbor_from_slice", v, json!({"check": "validate", "entry": "validate_cbor_from_slice", "schema": text, "cbor": cbor::hex(&enc)}))
    } else if t.chance(1, 6) {
      // CSV: rows from the document when it is an array of arrays, otherwise hostile text
      let csv = match t.below(3) {
        0 => "a,b\n1,2\n\"x\"\"y\",\n".to_string(),
        1 => "\"unterminated,1\n2,3".to_string(),
        _ => jsonw::to_json(&doc),
      };
      let v = call("csv1", &text, csv.as_bytes());
      ("validate_csv_from_str", v, json!({"check": "validate", "entry": "validate_csv_from_str", "schema": text, "csv": csv}))
    } else {
      let j = jsonw::to_json(&doc);
      let v = call("json", &text, j.as_bytes());
      ("validate_json_from_str", v, json!({"check": "validate", "entry": "validate_json_from_str", "schema": text, "json": j}))
    };
    st.count(if meaningful { "schema:meaningful" } else { "schema:grammar_sampled" });
    st.count(&format!("{}:{}", entry, v.class()));
    if let Some(what) = crashed(&v) {
      if let Some(n) = tolerated_panic(ctx, &v) {
        st.exclude(n);
        return Ok(());
      }
      st.crash(&what);
      return Err(report("validate", entry, &what, rp));
    }
    if !matches!(v, V::SchemaErr(_)) {
      let key = (&text, doc.diag());
      if st.nontrivial(&key) {
        st.sample(&key, || json!({"entry": entry, "schema": text, "document": doc.diag(), "outcome": v.class()}));
      }
    }
    Ok(())
  });

  // ------------------------------------------------------------------ decoder
  search(ctx, "decode", n * 2, 200, |t: &mut Tape, st: &mut Stats| {
    let v = cbor::gen_cval(t, 4);
    let (b, _) = cbor::encode_knobs(&v, t);
    let (mut m, _k) = cbor::mutate(t, &b);
    if t.chance(1, 3) {
      m = cbor::mutate(t, &m).0;
    }
    if m.len() > 65536 || cbor::nesting_depth(&m) > 64 {
      st.count("outside_bound(skipped)");
      return Ok(());
    }
    st.eval();
    let v = call("decode", "", &m);
    if let Some(what) = crashed(&v) {
      st.crash(&what);
      return Err(report("decode", "decode_cbor", &what, json!({"check": "decode", "entry": "decode_cbor", "cbor": cbor::hex(&m)})));
    }
    if cbor::ref_heads(&m) >= 2 && st.nontrivial(&m) {
      st.sample(&m, || json!({"entry": "decode_cbor", "bytes": cbor::hex(&m), "outcome": v.class()}));
    }
    Ok(())
  });

  // ------------------------------------------------------------------ growth series
  growth(ctx);
}

/// remove references that close a cycle without passing through a rule defined later (keeps a DAG)
fn break_cycles(s: &mut vcore::cmodel::Schema) {
  use vcore::cmodel::*;
  let names: Vec<String> = s.0.iter().map(|r| r.name.clone()).collect();
  fn fix_t2(t2: &mut Ty2, allowed: &[String], all: &[String]) {
    match t2 {
      Ty2::Name { name, args } | Ty2::Unwrap { name, args } | Ty2::ChoiceName { name, args } => {
        if all.contains(name) && !allowed.contains(name) {
          *name = "int".to_string();
          args.clear();
        }
        for a in args.iter_mut() {
          fix_t1(a, allowed, all);
        }
      }
      Ty2::Paren(t) => fix_ty(t, allowed, all),
      // references inside arrays and maps consume data (guarded recursion): left alone, except unwraps, which
      // splice the referenced group without consuming anything (a = { ~a } overflows the stack as well)
      Ty2::Arr(g) => fix_unwraps_g(g, allowed, all, false),
      // a bare name as a map member is a group reference that consumes nothing either
      Ty2::Map(g) => fix_unwraps_g(g, allowed, all, true),
      Ty2::ChoiceInline(g) => fix_g(g, allowed, all),
      Ty2::Tag { ty, .. } => fix_ty(ty, allowed, all),
      _ => {}
    }
  }
  fn fix_unwraps_g(g: &mut Grp, allowed: &[String], all: &[String], in_map: bool) {
    for gc in g.0.iter_mut() {
      for e in gc.iter_mut() {
        if in_map {
          let bad = match &e.kind {
            EntKind::Ref { name, .. } => all.contains(name) && !allowed.contains(name),
            EntKind::Val { key: None, ty } => ty.0.iter().any(|t1| matches!(&t1.t2, Ty2::Name { name, .. } if all.contains(name) && !allowed.contains(name))),
            _ => false,
          };
          if bad {
            e.kind = EntKind::Val { key: Some(Key::Bare("zz".into())), ty: Ty::name("int") };
            continue;
          }
        }
        match &mut e.kind {
          EntKind::Val { ty, .. } => {
            for t1 in ty.0.iter_mut() {
              fix_unwraps_t2(&mut t1.t2, allowed, all);
              if let Some((_, r)) = &mut t1.op {
                fix_unwraps_t2(r, allowed, all);
              }
            }
          }
          EntKind::Inline(g2) => fix_unwraps_g(g2, allowed, all, in_map),
          EntKind::Ref { .. } => {}
        }
      }
    }
  }
  fn fix_unwraps_t2(t2: &mut Ty2, allowed: &[String], all: &[String]) {
    match t2 {
      Ty2::Unwrap { name, args } => {
        if all.contains(name) && !allowed.contains(name) {
          *t2 = Ty2::Name { name: "int".to_string(), args: vec![] };
        } else {
          let _ = args;
        }
      }
      Ty2::Paren(t) => {
        for t1 in t.0.iter_mut() {
          fix_unwraps_t2(&mut t1.t2, allowed, all);
        }
      }
      Ty2::Arr(g) | Ty2::ChoiceInline(g) => fix_unwraps_g(g, allowed, all, false),
      Ty2::Map(g) => fix_unwraps_g(g, allowed, all, true),
      Ty2::Tag { ty, .. } => {
        for t1 in ty.0.iter_mut() {
          fix_unwraps_t2(&mut t1.t2, allowed, all);
        }
      }
      _ => {}
    }
  }
  fn fix_t1(t1: &mut Ty1, allowed: &[String], all: &[String]) {
    fix_t2(&mut t1.t2, allowed, all);
    if let Some((_, r)) = &mut t1.op {
      fix_t2(r, allowed, all);
    }
  }
  fn fix_ty(t: &mut Ty, allowed: &[String], all: &[String]) {
    for t1 in t.0.iter_mut() {
      fix_t1(t1, allowed, all);
    }
  }
  fn fix_g(g: &mut Grp, allowed: &[String], all: &[String]) {
    for gc in g.0.iter_mut() {
      for e in gc.iter_mut() {
        fix_e(e, allowed, all);
      }
    }
  }
  fn fix_e(e: &mut Ent, allowed: &[String], all: &[String]) {
    match &mut e.kind {
      EntKind::Val { key, ty } => {
        if let Some(Key::Arrow { t1, .. }) = key {
          fix_t1(t1, allowed, all);
        }
        fix_ty(ty, allowed, all);
      }
      EntKind::Ref { args, .. } => {
        // group references are guarded by the validators (active_group_refs): cycles through them stay in
        for a in args.iter_mut() {
          fix_t1(a, allowed, all);
        }
      }
      EntKind::Inline(g) => fix_g(g, allowed, all),
    }
  }
  for i in 0..s.0.len() {
    // a rule may only refer to names whose every definition comes later
    let allowed: Vec<String> = names
      .iter()
      .filter(|n| !names[..=i].contains(n))
      .cloned()
      .collect();
    match &mut s.0[i].body {
      Body::Ty(t) => fix_ty(t, &allowed, &names),
      Body::Grp(e) => fix_e(e, &allowed, &names),
    }
  }
}

fn time_call(kind: &str, schema: &str, doc: &[u8]) -> Option<f64> {
  let mut best = f64::MAX;
  for _ in 0..3 {
    let t0 = std::time::Instant::now();
    let v = calls::worker_call(kind, schema, doc);
    if crashed(&v).is_some() {
      return None;
    }
    best = best.min(t0.elapsed().as_secs_f64());
  }
  Some(best)
}

fn growth(ctx: &Ctx) {
  // (family name, generator n -> (kind, schema, doc))
  type Gen = fn(usize) -> (&'static str, String, Vec<u8>);
  fn nest(open: &str, close: &str, n: usize, core: &str) -> String {
    format!("{}{}{}", open.repeat(n), core, close.repeat(n))
  }
  let families: Vec<(&'static str, Gen)> = vec![
    ("parse_format:array_nesting", |n| ("parse", String::new(), format!("a = {}\n", nest("[ ", " ]", n, "int")).into_bytes())),
    ("parse_format:map_nesting", |n| ("parse", String::new(), format!("a = {}\n", nest("{ k: ", " }", n, "int")).into_bytes())),
    ("parse_format:group_nesting", |n| ("parse", String::new(), format!("a = [ {} ]\n", nest("( ", " )", n, "int, tstr")).into_bytes())),
    ("parse_format:paren_type_nesting", |n| ("parse", String::new(), format!("a = {}\n", nest("( ", " )", n, "int / tstr")).into_bytes())),
    ("parse_format:group_choices_nested", |n| ("parse", String::new(), format!("a = {}\n", nest("[ int // ", " ]", n, "tstr")).into_bytes())),
    // rejected texts: n unclosed brackets (an editor buffer while typing)
    ("parse_rejected:unclosed_arrays", |n| ("parse", String::new(), format!("a = {}", "[".repeat(n)).into_bytes())),
    ("parse_rejected:unclosed_maps", |n| ("parse", String::new(), format!("a = {}", "{".repeat(n)).into_bytes())),
    ("parse_rejected:unclosed_keyed_maps", |n| ("parse", String::new(), format!("a = {}", "{ k: ".repeat(n)).into_bytes())),
    ("parse_format:type_choices", |n| ("parse", String::new(), format!("a = {}\n", vec!["int"; 8 * n].join(" / ")).into_bytes())),
    ("parse_format:rules", |n| ("parse", String::new(), (0..8 * n).map(|i| format!("r{} = [ * r{} ]\n", i, i + 1)).collect::<String>().into_bytes())),
    ("validate_json:array_nesting", |n| ("json", format!("a = {}\n", nest("[ ", " ]", n, "int")), nest("[", "]", n, "1").into_bytes())),
    ("validate_json:alias_chain", |n| {
      ("json", (0..n).map(|i| format!("r{} = r{}\n", i, i + 1)).collect::<String>() + &format!("r{} = int\n", n), b"1".to_vec())
    }),
    ("validate_json:recursive_rule", |n| ("json", "a = [ * a ] / int\n".to_string(), nest("[", "]", n, "1").into_bytes())),
    ("validate_cbor:recursive_rule", |n| {
      let mut d = vec![0x81u8; n];
      d.push(0x01);
      ("cbor", "a = [ * a ] / int\n".to_string(), d)
    }),
    ("validate_json:choice_of_recursion", |n| ("json", "a = [ * a / a ]\n".to_string(), nest("[", "]", n, "").into_bytes())),
    ("validate_cbor:choice_of_recursion", |n| {
      let mut d = vec![0x81u8; n.saturating_sub(1)];
      d.push(0x80);
      ("cbor", "a = [ * a / a ]\n".to_string(), d)
    }),
    ("validate_json:long_array", |n| ("json", "a = [ * int ]\n".to_string(), format!("[{}]", vec!["1"; 64 * n].join(",")).into_bytes())),
    ("validate_json:wide_map", |n| {
      ("json", "a = { * tstr => int }\n".to_string(), format!("{{{}}}", (0..16 * n).map(|i| format!("\"k{}\":1", i)).collect::<Vec<_>>().join(",")).into_bytes())
    }),
  ];
  let sizes: Vec<usize> = match ctx.tier {
    vcore::Tier::Quick => vec![4, 8, 12, 16, 20, 24],
    vcore::Tier::Thorough => vec![4, 8, 12, 16, 20, 24, 32, 40, 48, 56, 64],
  };
  let fams: Vec<usize> = (0..families.len()).collect();
  let kf_display = ctx.excl("display_nested_groups_exponential");
  let kf_json_rec = ctx.excl("json_recursive_choice_exponential_time");
  let kf_cbor_rec = ctx.excl("cbor_recursive_schema_exponential_time");
  let kf_unclosed = ctx.excl("parse_exponential_on_unclosed_brackets");
  sweep(ctx, "growth", &fams, |fi, st| {
    let (name, gen) = &families[*fi];
    let mut times: Vec<(usize, f64)> = vec![];
    for &n in &sizes {
      let (kind, schema, doc) = gen(n);
      st.eval();
      match time_call(kind, &schema, &doc) {
        Some(dt) => times.push((n, dt)),
        None => {
          // crash or limit: decide by known findings
          if name.starts_with("parse_rejected") && kf_unclosed {
            st.exclude("parse_exponential_on_unclosed_brackets");
            break;
          }
          let known = (name.starts_with("parse_format") && kf_display)
            || (name.contains("validate_json") && name.contains("recurs") && kf_json_rec)
            || (name.contains("validate_cbor") && name.contains("recurs") && kf_cbor_rec);
          if known {
            st.exclude(if name.starts_with("parse_format") { "display_nested_groups_exponential" } else if name.contains("json") { "json_recursive_choice_exponential_time" } else { "cbor_recursive_schema_exponential_time" });
            break;
          }
          let rp = match kind {
            "parse" => json!({"check": "growth", "entry": "parse", "text": String::from_utf8_lossy(&doc), "family": name, "n": n}),
            "json" => json!({"check": "growth", "entry": "validate_json_from_str", "schema": schema, "json": String::from_utf8_lossy(&doc), "family": name, "n": n}),
            _ => json!({"check": "growth", "entry": "validate_cbor_from_slice", "schema": schema, "cbor": cbor::hex(&doc), "family": name, "n": n}),
          };
          return Err(Fail::new(format!("{}: crash or no answer within the limit at size n={}", name, n), rp));
        }
      }
      if times.last().map(|x| x.1 > 2.0).unwrap_or(false) {
        break;
      }
    }
    // geometric growth: ratio >= 2.5 per step of +4 on three consecutive steps, ending above 0.5 s
    let mut geometric = false;
    for w in times.windows(4) {
      let r: Vec<f64> = w.windows(2).map(|p| p[1].1 / p[0].1.max(1e-5)).collect();
      if r.iter().all(|x| *x >= 2.5) && w[3].1 > 0.5 {
        geometric = true;
      }
    }
    st.nontrivial(name);
    st.sample(name, || json!({"family": name, "seconds_by_n": times.iter().map(|(n, t)| json!([n, (t * 1e5).round() / 1e5])).collect::<Vec<_>>()}));
    st.nontrivial(&format!("{}#2", name));
    if geometric {
      let known = (name.starts_with("parse_format") && kf_display)
        || (name.starts_with("parse_rejected") && kf_unclosed)
        || (name.contains("validate_json") && name.contains("recurs") && kf_json_rec)
        || (name.contains("validate_cbor") && name.contains("recurs") && kf_cbor_rec);
      if known {
        st.exclude("growth_known_finding");
        return Ok(());
      }
      let (kind, schema, doc) = gen(times.last().unwrap().0);
      let rp = match kind {
        "parse" => json!({"check": "growth", "entry": "parse", "text": String::from_utf8_lossy(&doc), "family": name}),
        "json" => json!({"check": "growth", "entry": "validate_json_from_str", "schema": schema, "json": String::from_utf8_lossy(&doc), "family": name}),
        _ => json!({"check": "growth", "entry": "validate_cbor_from_slice", "schema": schema, "cbor": cbor::hex(&doc), "family": name}),
      };
      return Err(Fail::new(format!("{}: running time grows geometrically with n: {:?}", name, times), rp));
    }
    Ok(())
  });
}
