//! C01 — JSON validation verdicts equal RFC 8610 semantics on the core language.
use crate::semcheck::*;
use vcore::calls::V;
use vcore::cbor::CVal;
use vcore::cmodel::Schema;
use vcore::sem::Verdict;
use vcore::semgen::GenOpts;
use vcore::{json, search, Ctx, Stats, Tape, J};

pub fn gen_opts(ctx: &Ctx) -> GenOpts {
  let mut o = GenOpts::default();
  o.cbor = false;
  o.eq_on_bool = !ctx.excl("eq_ne_non_text_numeric_target");
  o.group_alias_bodies = !ctx.excl("group_rule_aliasing_a_group_rule");
  o.map_group_choices = !ctx.excl("json_map_group_choice");
  o.map_group_occ = !ctx.excl("json_map_group_occurrence");
  o.group_increments = !ctx.excl("json_group_rule_increment_in_map");
  o.table_not_last = !ctx.excl("json_table_before_literal_key");
  o.noncut_keys = !ctx.excl("noncut_literal_key_falls_through");
  if let Ok(off) = std::env::var("VERIF_GEN_OFF") {
    for f in off.split(',') {
      match f {
        "map_group_choices" => o.map_group_choices = false,
        "map_inline_groups" => o.map_inline_groups = false,
        "map_group_refs" => o.map_group_refs = false,
        "table_not_last" => o.table_not_last = false,
        "dup_literal_keys" => o.dup_literal_keys = false,
        "map_group_occ" => o.map_group_occ = false,
        "group_increments" => o.group_increments = false,
        "noncut_keys" => o.noncut_keys = false,
        "maps" => o.maps = false,
        "arrays" => o.arrays = false,
        "increments" => o.increments = false,
        "controls" => o.controls = false,
        "floats" => o.floats = false,
        _ => {}
      }
    }
  }
  o
}

pub fn exclusions(_ctx: &Ctx) -> impl Fn(&Schema, &CVal, Verdict, &V) -> Option<&'static str> {
  move |_s, _d, _e, _g| None
}

pub fn replay(_ctx: &Ctx, case: &J) -> Result<(), String> {
  replay_json(case)
}

pub fn run(ctx: &Ctx) {
  ctx.set_rule(
    "cases: a schema of the core fragment generated from the harness' own model (1-5 rules; prelude scalars, literals, \
     ranges, type choices, arrays with occurrences / inline groups / group choices / group-rule references, maps with \
     bareword, value and arrow keys, optional members, cuts, tables, .size/.lt/.le/.gt/.ge/.eq/.ne controls, rule \
     references, recursion through containers) x 8 documents (3 valid-by-construction samples, 4 single-edit near \
     misses, 1 unrelated value). Oracle: vcore::sem (set semantics of RFC 8610, PEG array matching as the crate \
     documents, declarative map matching with cuts), evaluated under both readings of integral JSON numbers; \
     disagreeing readings are dropped as kind_ambiguous. Non-trivial: the oracle's evaluation entered an array or map \
     with the document and touched >= 2 construct kinds of {occurrence, group choice, inline group, group ref, \
     optional member, cut, table, control, range, rule ref, type choice}; distinct = distinct (schema text, JSON text). Sub-check small_scope: every root type of a small grammar (10 atoms and their pairs, arrays of 0-2 entries over 11 entry forms incl. inline groups and two-way group choices, maps of 0-2 members over 8 member forms) x a universe of 34 documents, exhaustively.",
  );
  ctx.assume("the oracle implements the PEG reading of arrays that the crate documents and the declarative reading of maps");
  ctx.assume("oracle_unsupported cases (constructs outside the reference fragment) are skipped and counted");
  let o = gen_opts(ctx);
  let excl = exclusions(ctx);
  ctx.set_extra("generator_options", json!(format!("{:?}", o)));
  let n = ctx.tier.pick(60_000u64, 1_500_000u64);
  search(ctx, "core_json", n, 400, |t: &mut Tape, st: &mut Stats| {
    let case = gen_case(t, &o, Mode::Json, 8);
    for (doc, kind) in &case.docs {
      eval_json(ctx, "core_json", &case.schema, &case.text, doc, kind, st, &excl)?;
    }
    Ok(())
  });
  // exhaustive small scope: every root type of a small grammar x every document of a small universe
  let pairs: Vec<(Schema, String, CVal)> = {
    let docs = crate::smallscope::documents(false);
    let mut v = vec![];
    for s in crate::smallscope::schemas(&o, false) {
      let text = vcore::cmodel::render(&s);
      for d in &docs {
        v.push((s.clone(), text.clone(), d.clone()));
      }
    }
    v
  };
  vcore::sweep(ctx, "small_scope", &pairs, |(s, text, d), st| eval_json(ctx, "small_scope", s, text, d, "sample", st, &excl));
  if survey_on() {
    survey_dump(ctx);
  }
}
