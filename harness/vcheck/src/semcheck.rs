//! Shared machinery of C01 (JSON) and C02 (CBOR): generated (schema, document) pairs checked
//! against the reference semantics `vcore::sem`.
use vcore::calls::{self, V};
use vcore::cbor::{self, CVal};
use vcore::cmodel::{render, Schema};
use vcore::jsonw;
use vcore::sample::{near_miss, Sampler};
use vcore::sem::{self, Sem, SemOpts, Verdict};
use vcore::semgen::{GenOpts, SemGen};
use vcore::{json, Ctx, Fail, Stats, Tape, J};

/// Survey mode (VERIF_SURVEY=1, triage aid): failures are not reported but grouped by a signature,
/// keeping the smallest example of each group; printed by `survey_dump`.
pub static SURVEY: std::sync::Mutex<std::collections::BTreeMap<String, (u64, usize, String)>> =
  std::sync::Mutex::new(std::collections::BTreeMap::new());

pub fn survey_on() -> bool {
  std::env::var("VERIF_SURVEY").is_ok()
}

fn normalize(s: &str) -> String {
  let mut out = String::new();
  let mut in_q = false;
  for c in s.chars() {
    if c == '"' {
      in_q = !in_q;
      out.push('"');
      continue;
    }
    if in_q {
      continue;
    }
    if c.is_ascii_digit() {
      if !out.ends_with('#') {
        out.push('#');
      }
    } else {
      out.push(c);
    }
  }
  let out = match out.find(", got") {
    Some(i) => out[..i].to_string(),
    None => out,
  };
  out.chars().take(110).collect()
}

pub fn survey_add(exp: &str, got: &V, example: String) {
  let sig = format!("{} vs {}", exp, normalize(&got.brief()));
  let mut m = SURVEY.lock().unwrap();
  let e = m.entry(sig).or_insert((0, usize::MAX, String::new()));
  e.0 += 1;
  if example.len() < e.1 {
    e.1 = example.len();
    e.2 = example;
  }
}

pub fn survey_dump(ctx: &Ctx) {
  let m = SURVEY.lock().unwrap();
  let mut v: Vec<_> = m.iter().collect();
  v.sort_by_key(|x| std::cmp::Reverse(x.1 .0));
  let mut out = String::new();
  for (sig, (n, _, ex)) in v {
    out.push_str(&format!("{:6}  {}\n        e.g. {}\n", n, sig, ex));
  }
  let _ = std::fs::write("/tmp/survey.txt", out);
  ctx.note("survey written to /tmp/survey.txt");
}

#[derive(Clone, Copy, PartialEq)]
pub enum Mode {
  Json,
  Cbor,
}

pub struct Case {
  pub schema: Schema,
  pub text: String,
  pub docs: Vec<(CVal, &'static str)>,
}

/// one schema and a handful of documents: valid-by-construction attempts, near misses, unrelated
pub fn gen_case(t: &mut Tape, o: &GenOpts, mode: Mode, ndocs: usize) -> Case {
  let schema = SemGen::new(t, o).schema();
  let text = render(&schema);
  let json = mode == Mode::Json;
  let mut docs = vec![];
  for i in 0..ndocs {
    let kind = match i % 8 {
      0 | 1 | 2 => 0,
      3 | 4 | 5 | 6 => 1,
      _ => 2,
    };
    let mut s = Sampler::new(&schema, t, json);
    let base = s.root();
    match kind {
      0 => docs.push((base, "sample")),
      1 => {
        let (m, k) = near_miss(t, &base, json);
        docs.push((m, k));
      }
      _ => {
        let mut s = Sampler::new(&schema, t, json);
        docs.push((s.any_value(2), "unrelated"));
      }
    }
  }
  Case { schema, text, docs }
}

pub fn expected(schema: &Schema, v: &CVal, mode: Mode) -> (Option<Verdict>, u32) {
  match mode {
    Mode::Json => sem::accepts_json(schema, v),
    Mode::Cbor => {
      let s = Sem::new(schema, SemOpts::default());
      let r = s.accepts(v);
      (Some(r), s.trace.get())
    }
  }
}

pub fn nontrivial(trace: u32) -> bool {
  let composite = trace & (sem::TR_ARRAY | sem::TR_MAP) != 0;
  let kinds = (trace
    & (sem::TR_OCCUR
      | sem::TR_GROUP_CHOICE
      | sem::TR_INLINE
      | sem::TR_GROUP_REF
      | sem::TR_OPT_MEMBER
      | sem::TR_CUT
      | sem::TR_TABLE
      | sem::TR_CTL
      | sem::TR_RANGE
      | sem::TR_RULE_REF
      | sem::TR_TAG
      | sem::TR_MAJOR
      | sem::TR_BYTES
      | sem::TR_NONTEXT_KEY
      | sem::TR_CHOICE))
    .count_ones();
  composite && kinds >= 2
}

pub fn verdict_json(schema_text: &str, doc: &str) -> V {
  calls::validate_json(schema_text, doc)
}

pub fn class_matches(exp: Verdict, got: &V) -> bool {
  match exp {
    Verdict::Accept => got.accepts(),
    Verdict::Reject => !got.accepts(),
    Verdict::Unsupported(_) => true,
  }
}

pub fn replay_json(case: &J) -> Result<(), String> {
  let schema = case["schema"].as_str().ok_or("no schema")?;
  let doc = case["json"].as_str().ok_or("no json")?;
  let exp = case["expected"].as_str().ok_or("no expected")?;
  let got = calls::validate_json(schema, doc);
  let ok = (exp == "accept") == got.accepts();
  if ok {
    Ok(())
  } else {
    Err(format!("RFC 8610 semantics: {}; validate_json_from_str: {}", exp, got.brief()))
  }
}

pub fn replay_cbor(case: &J) -> Result<(), String> {
  let schema = case["schema"].as_str().ok_or("no schema")?;
  let exp = case["expected"].as_str().ok_or("no expected")?;
  let encs: Vec<String> = match &case["cbor"] {
    J::String(s) => vec![s.clone()],
    J::Array(a) => a.iter().filter_map(|x| x.as_str().map(|s| s.to_string())).collect(),
    _ => return Err("no cbor".into()),
  };
  for e in encs {
    let got = calls::validate_cbor(schema, &cbor::unhex(&e));
    if (exp == "accept") != got.accepts() {
      return Err(format!("RFC 8610 semantics: {}; validate_cbor_from_slice({}): {}", exp, e, got.brief()));
    }
  }
  Ok(())
}

pub fn vname(v: Verdict) -> &'static str {
  match v {
    Verdict::Accept => "accept",
    Verdict::Reject => "reject",
    Verdict::Unsupported(_) => "unsupported",
  }
}

/// Evaluate one JSON case. `excl` decides whether an open finding covers the (schema, doc) pair.
pub fn eval_json(
  ctx: &Ctx,
  check: &str,
  schema: &Schema,
  text: &str,
  doc: &CVal,
  kind: &str,
  st: &mut Stats,
  excl: &dyn Fn(&Schema, &CVal, Verdict, &V) -> Option<&'static str>,
) -> Result<(), Fail> {
  let _ = ctx;
  st.eval();
  if !jsonw::is_json_model(doc) {
    st.count("doc_outside_json_model");
    return Ok(());
  }
  let (exp, trace) = expected(schema, doc, Mode::Json);
  let exp = match exp {
    None => {
      st.count("kind_ambiguous(int vs float reading)");
      return Ok(());
    }
    Some(Verdict::Unsupported(why)) => {
      st.count(&format!("oracle_unsupported:{}", why));
      return Ok(());
    }
    Some(v) => v,
  };
  let jtxt = jsonw::to_json(doc);
  let got = calls::validate_json(text, &jtxt);
  if let V::Panic(p) = &got {
    st.crash(&calls::panic_site(p));
  }
  st.count(&format!("expected_{}", vname(exp)));
  st.count(&format!("doc_kind:{}", if kind == "sample" || kind == "unrelated" { kind } else { "near_miss" }));
  if class_matches(exp, &got) {
    if nontrivial(trace) {
      st.count(&format!("nontrivial_{}", vname(exp)));
      for n in sem::trace_names(trace) {
        st.count(&format!("construct:{}", n));
      }
      let key = (text, &jtxt);
      if st.nontrivial(&key) {
        st.sample(&key, || json!({"schema": text, "json": jtxt, "rfc8610": vname(exp), "crate": got.class(), "doc_kind": kind}));
      }
    }
    return Ok(());
  }
  if let Some(name) = excl(schema, doc, exp, &got) {
    st.exclude(name);
    return Ok(());
  }
  if survey_on() {
    survey_add(vname(exp), &got, format!("{:?} {}", text, jtxt));
    return Ok(());
  }
  Err(Fail::new(
    format!("RFC 8610 semantics say {} but validate_json_from_str says {} (schema {:?}, document {})", vname(exp), got.brief(), text, jtxt),
    json!({"check": check, "schema": text, "json": jtxt, "expected": vname(exp), "doc_kind": kind}),
  ))
}

/// Evaluate one CBOR case with three encodings of the same data item.
pub fn eval_cbor(
  ctx: &Ctx,
  check: &str,
  schema: &Schema,
  text: &str,
  doc: &CVal,
  kind: &str,
  t: &mut Tape,
  st: &mut Stats,
  excl: &dyn Fn(&Schema, &CVal, Verdict, &V) -> Option<&'static str>,
) -> Result<(), Fail> {
  let _ = ctx;
  st.eval();
  let (exp, trace) = expected(schema, doc, Mode::Cbor);
  let exp = match exp {
    Some(Verdict::Unsupported(why)) => {
      st.count(&format!("oracle_unsupported:{}", why));
      return Ok(());
    }
    Some(v) => v,
    None => return Ok(()),
  };
  let e0 = cbor::encode(doc);
  let (e1, nc1) = cbor::encode_knobs(doc, t);
  let (e2, nc2) = cbor::encode_knobs(doc, t);
  st.count(&format!("expected_{}", vname(exp)));
  st.count(&format!("doc_kind:{}", if kind == "sample" || kind == "unrelated" { kind } else { "near_miss" }));
  if nc1 || nc2 {
    st.count("noncanonical_encoding_used");
  }
  let encs = [e0, e1, e2];
  let mut gots = vec![];
  for e in &encs {
    let got = calls::validate_cbor(text, e);
    if let V::Panic(p) = &got {
      st.crash(&calls::panic_site(p));
    }
    gots.push(got);
  }
  let all_match = gots.iter().all(|g| class_matches(exp, g));
  if all_match {
    if nontrivial(trace) || ((nc1 || nc2) && trace & (sem::TR_ARRAY | sem::TR_MAP) != 0) {
      st.count(&format!("nontrivial_{}", vname(exp)));
      for n in sem::trace_names(trace) {
        st.count(&format!("construct:{}", n));
      }
      let key = (text, &encs[1]);
      if st.nontrivial(&key) {
        st.sample(&key, || {
          json!({"schema": text, "item": doc.diag(), "encodings": encs.iter().map(|e| cbor::hex(e)).collect::<Vec<_>>(),
                 "rfc8610": vname(exp), "crate": gots[0].class(), "doc_kind": kind})
        });
      }
    }
    return Ok(());
  }
  let bad = gots.iter().position(|g| !class_matches(exp, g)).unwrap();
  if let Some(name) = excl(schema, doc, exp, &gots[bad]) {
    st.exclude(name);
    return Ok(());
  }
  let enc_dep = gots.iter().any(|g| g.accepts()) && gots.iter().any(|g| !g.accepts());
  if survey_on() {
    survey_add(&format!("{}{}", if enc_dep { "ENCDEP " } else { "" }, vname(exp)), &gots[bad], format!("{:?} {} [{}]", text, doc.diag(), cbor::hex(&encs[bad])));
    return Ok(());
  }
  Err(Fail::new(
    format!(
      "{}RFC 8610 semantics say {} but validate_cbor_from_slice says {} for encoding {} of {} (schema {:?})",
      if enc_dep { "verdict depends on the encoding; " } else { "" },
      vname(exp),
      gots[bad].brief(),
      cbor::hex(&encs[bad]),
      doc.diag(),
      text
    ),
    json!({"check": check, "schema": text, "item": doc.diag(), "cbor": encs.iter().map(|e| cbor::hex(e)).collect::<Vec<_>>(),
           "expected": vname(exp), "doc_kind": kind}),
  ))
}
