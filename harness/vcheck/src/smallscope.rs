//! Exhaustive small scope shared by C01 (JSON) and C02 (CBOR): every root type of a small grammar x every document
//! of a small universe, against the reference semantics.
use vcore::cbor::CVal;
use vcore::cmodel::{Body, Ent, EntKind, Grp, Key, Lit, Occ, Op, RuleM, Schema, Ty, Ty1, Ty2};
use vcore::semgen::GenOpts;

fn name(n: &str) -> Ty2 {
  Ty2::Name { name: n.to_string(), args: vec![] }
}

fn atoms() -> Vec<Ty1> {
  vec![
    Ty1::plain(name("int")),
    Ty1::plain(name("uint")),
    Ty1::plain(name("tstr")),
    Ty1::plain(name("bool")),
    Ty1::plain(name("nil")),
    Ty1::plain(Ty2::Lit(Lit::int(1))),
    Ty1::plain(Ty2::Lit(Lit::text("a"))),
    Ty1 { t2: Ty2::Lit(Lit::int(0)), op: Some((Op::Range { inclusive: true }, Ty2::Lit(Lit::int(2)))) },
    Ty1 { t2: name("tstr"), op: Some((Op::Ctl("size".into()), Ty2::Lit(Lit::int(1)))) },
    Ty1 { t2: name("int"), op: Some((Op::Ctl("gt".into()), Ty2::Lit(Lit::int(0)))) },
  ]
}

fn ent(occ: Option<Occ>, t: Ty1) -> Ent {
  Ent { occ, kind: EntKind::Val { key: None, ty: Ty(vec![t]) } }
}

fn array_entries() -> Vec<Ent> {
  let int = || Ty1::plain(name("int"));
  let tstr = || Ty1::plain(name("tstr"));
  vec![
    ent(None, int()),
    ent(Some(Occ::Opt), int()),
    ent(Some(Occ::Star), int()),
    ent(Some(Occ::Plus), int()),
    ent(Some(Occ::Range(Some(2), Some(3))), int()),
    ent(None, tstr()),
    ent(Some(Occ::Opt), tstr()),
    ent(Some(Occ::Star), tstr()),
    Ent { occ: None, kind: EntKind::Val { key: None, ty: Ty(vec![int(), tstr()]) } },
    Ent { occ: Some(Occ::Star), kind: EntKind::Inline(Grp(vec![vec![ent(None, int()), ent(None, tstr())]])) },
    Ent { occ: Some(Occ::Opt), kind: EntKind::Inline(Grp(vec![vec![ent(None, int())], vec![ent(None, tstr())]])) },
  ]
}

fn member(occ: Option<Occ>, key: Key, t: Ty1) -> Ent {
  Ent { occ, kind: EntKind::Val { key: Some(key), ty: Ty(vec![t]) } }
}

fn map_members(o: &GenOpts, cbor: bool) -> Vec<Ent> {
  let int = || Ty1::plain(name("int"));
  let tstr = || Ty1::plain(name("tstr"));
  let mut v = vec![
    member(None, Key::Bare("a".into()), int()),
    member(Some(Occ::Opt), Key::Bare("a".into()), int()),
    member(None, Key::Bare("b".into()), tstr()),
    member(Some(Occ::Opt), Key::Bare("b".into()), tstr()),
    member(Some(Occ::Star), Key::Arrow { t1: tstr(), cut: false }, int()),
    member(Some(Occ::Opt), Key::Arrow { t1: Ty1::plain(Ty2::Lit(Lit::text("a"))), cut: true }, int()),
    member(None, Key::Val(Lit::text("c")), Ty1::plain(name("any"))),
  ];
  if o.noncut_keys {
    v.push(member(Some(Occ::Opt), Key::Arrow { t1: Ty1::plain(Ty2::Lit(Lit::text("a"))), cut: false }, int()));
  }
  if cbor {
    v.push(member(Some(Occ::Opt), Key::Val(Lit::int(1)), tstr()));
    v.push(member(Some(Occ::Star), Key::Arrow { t1: Ty1::plain(name("uint")), cut: false }, tstr()));
  }
  v
}

fn is_table(e: &Ent) -> bool {
  matches!(&e.kind, EntKind::Val { key: Some(k), .. } if vcore::cmodel::is_table_key(k))
}

fn key_id(e: &Ent) -> Option<String> {
  match &e.kind {
    EntKind::Val { key: Some(Key::Bare(b)), .. } => Some(format!("t:{}", b)),
    EntKind::Val { key: Some(Key::Val(l)), .. } => Some(format!("v:{}", l.spelling())),
    EntKind::Val { key: Some(Key::Arrow { t1, .. }), .. } => match (&t1.t2, &t1.op) {
      (Ty2::Lit(Lit::Text { v, .. }), None) => Some(format!("t:{}", v)),
      (Ty2::Lit(l), None) => Some(format!("v:{}", l.spelling())),
      _ => None,
    },
    _ => None,
  }
}

/// all root types of the small grammar (respecting the generator options that stand for open findings)
pub fn schemas(o: &GenOpts, cbor: bool) -> Vec<Schema> {
  let mut roots: Vec<Ty> = vec![];
  let at = atoms();
  for a in &at {
    roots.push(Ty(vec![a.clone()]));
  }
  for (i, a) in at.iter().enumerate() {
    for b in at.iter().skip(i + 1) {
      roots.push(Ty(vec![a.clone(), b.clone()]));
    }
  }
  // arrays: 0, 1 or 2 entries; one group choice form
  let es = array_entries();
  roots.push(Ty::one(Ty2::Arr(Grp(vec![vec![]]))));
  for e in &es {
    roots.push(Ty::one(Ty2::Arr(Grp(vec![vec![e.clone()]]))));
    for f in &es {
      roots.push(Ty::one(Ty2::Arr(Grp(vec![vec![e.clone(), f.clone()]]))));
    }
  }
  for e in es.iter().take(6) {
    for f in es.iter().take(6) {
      roots.push(Ty::one(Ty2::Arr(Grp(vec![vec![e.clone()], vec![f.clone()]]))));
    }
  }
  // maps: 0, 1 or 2 members
  let ms = map_members(o, cbor);
  roots.push(Ty::one(Ty2::Map(Grp(vec![vec![]]))));
  for m in &ms {
    roots.push(Ty::one(Ty2::Map(Grp(vec![vec![m.clone()]]))));
    for n in &ms {
      // open findings: table before another member; the same literal key twice
      if !o.table_not_last && is_table(m) {
        continue;
      }
      if !o.dup_literal_keys && key_id(m).is_some() && key_id(m) == key_id(n) {
        continue;
      }
      if m == n {
        continue;
      }
      roots.push(Ty::one(Ty2::Map(Grp(vec![vec![m.clone(), n.clone()]]))));
    }
  }
  if o.map_group_choices {
    for m in ms.iter().take(4) {
      for n in ms.iter().take(4) {
        roots.push(Ty::one(Ty2::Map(Grp(vec![vec![m.clone()], vec![n.clone()]]))));
      }
    }
  }
  // a container or an atom
  roots.push(Ty(vec![Ty1::plain(Ty2::Arr(Grp(vec![vec![ent(Some(Occ::Star), Ty1::plain(name("int")))]]))), Ty1::plain(name("tstr"))]));
  roots.push(Ty(vec![Ty1::plain(Ty2::Map(Grp(vec![vec![ms[0].clone()]]))), Ty1::plain(Ty2::Arr(Grp(vec![vec![]])))]));
  roots.into_iter().map(|t| Schema(vec![RuleM { name: "root".into(), params: vec![], alt: false, body: Body::Ty(t) }])).collect()
}

/// the small universe of documents
pub fn documents(cbor: bool) -> Vec<CVal> {
  let i = |v: i128| CVal::Int(v);
  let s = |v: &str| CVal::text(v);
  let arr = |v: Vec<CVal>| CVal::Array(v);
  let map = |v: Vec<(CVal, CVal)>| CVal::Map(v);
  let mut d = vec![
    i(1),
    i(-1),
    i(0),
    i(2),
    i(3),
    CVal::f(1.5),
    s("a"),
    s("b"),
    s(""),
    s("ab"),
    CVal::bool(true),
    CVal::null(),
    arr(vec![]),
    arr(vec![i(1)]),
    arr(vec![s("a")]),
    arr(vec![i(1), i(1)]),
    arr(vec![i(1), s("a")]),
    arr(vec![s("a"), i(1)]),
    arr(vec![s("a"), s("b")]),
    arr(vec![i(1), i(1), i(1)]),
    arr(vec![i(1), i(1), i(1), i(1)]),
    arr(vec![i(1), s("a"), i(1), s("a")]),
    arr(vec![CVal::null()]),
    map(vec![]),
    map(vec![(s("a"), i(1))]),
    map(vec![(s("a"), s("x"))]),
    map(vec![(s("b"), s("x"))]),
    map(vec![(s("a"), i(1)), (s("b"), s("x"))]),
    map(vec![(s("b"), s("x")), (s("a"), i(1))]),
    map(vec![(s("c"), i(1))]),
    map(vec![(s("a"), i(1)), (s("c"), i(2))]),
    map(vec![(s("c"), s("x"))]),
    map(vec![(s("d"), i(1)), (s("e"), i(2))]),
    map(vec![(s("a"), i(1)), (s("d"), s("x"))]),
  ];
  if cbor {
    d.push(map(vec![(i(1), s("x"))]));
    d.push(map(vec![(i(1), s("x")), (i(2), s("y"))]));
    d.push(map(vec![(i(2), i(1))]));
    d.push(map(vec![(s("a"), i(1)), (i(1), s("x"))]));
    d.push(CVal::Bytes(vec![1, 2]));
  }
  d
}
