//! C03 — the parser accepts exactly the RFC 8610/9682 grammar and mirrors it in the AST.
use vcore::calls;
use vcore::cmodel::{expected_skel, render_with, Schema, TapeTrivia};
use vcore::skel::{skel_opt, Opt};
use vcore::syngen::{SynGen, SynOpts};
use vcore::{json, search, Ctx, Fail, Stats, Tape, J};

static GRAMMAR: std::sync::OnceLock<vcore::earley::Grammar> = std::sync::OnceLock::new();

/// Is the text derivable from the ABNF oracle (RFC 8610 + RFC 9682 + documented leniencies)?
pub fn derivable(text: &str) -> bool {
  GRAMMAR.get_or_init(vcore::cddl_abnf::grammar).recognizes("cddl", text)
}

/// derivable with identifiers and numbers never split (the reading every tokenising implementation uses)
pub fn derivable_strict(text: &str) -> bool {
  vcore::cddl_abnf::strict(GRAMMAR.get_or_init(vcore::cddl_abnf::grammar), text)
}

static RELAXED: std::sync::OnceLock<vcore::earley::Grammar> = std::sync::OnceLock::new();

/// derivable from the oracle extended by the relaxations of open findings
fn derivable_relaxed(ctx: &Ctx, text: &str) -> bool {
  if RELAXED.get_or_init(|| vcore::cddl_abnf::grammar_with(&|name| ctx.excl(name))).recognizes("cddl", text) {
    return true;
  }
  // C03-F12: unchecked escapes, only inside the raw type of a '<...>' head number
  ctx.excl(vcore::cddl_abnf::UNCHECKED_ESCAPES.0)
    && text.contains(".<")
    && RELAXED2.get_or_init(|| vcore::cddl_abnf::grammar_with_unchecked_escapes(&|name| ctx.excl(name))).recognizes("cddl", text)
}

static RELAXED2: std::sync::OnceLock<vcore::earley::Grammar> = std::sync::OnceLock::new();

/// under-acceptance that is recorded as an open finding: (exclusion name, predicate on the text)
fn under_acceptance_excluded(ctx: &Ctx, text: &str, st: &mut Stats) -> bool {
  let b = text.as_bytes();
  let radix_float = |p: &[u8]| {
    // 0x.. / 0b.. mantissa followed by a fraction or exponent that is not a hexfloat
    (0..b.len().saturating_sub(2)).any(|i| b[i] == b'0' && (b[i + 1] | 0x20 == p[0]) && {
      let mut j = i + 2;
      while j < b.len() && b[j].is_ascii_hexdigit() && !(p[0] == b'b' && b[j] | 0x20 == b'e') {
        j += 1;
      }
      j < b.len() && (b[j] == b'.' || b[j] | 0x20 == b'e')
    })
  };
  // '$' is an EALPHA: "$", "$$", "$1", "$-a"... are identifiers; the crate only knows '$' / '$$' as prefixes of a name
  let dollar_form = (0..b.len()).any(|i| b[i] == b'$' && (i + 1 >= b.len() || !(b[i + 1].is_ascii_alphabetic() || b[i + 1] == b'@' || b[i + 1] == b'_' || b[i + 1] == b'$')))
    || text.contains("$$$");
  let table: [(&str, bool); 3] = [
    ("c03:dollar_identifier_forms", dollar_form),
    ("c03:radix_float_mantissa", radix_float(b"x") || radix_float(b"b")),
    ("c03:escaped_quote_in_bytes", text.contains("\\'")),
  ];
  for (name, hit) in table {
    if hit && ctx.excl(name) {
      st.exclude(name);
      return true;
    }
  }
  false
}

const ALPHABET: &[&str] = &[
  "=", "/=", "//=", "/", "//", "(", ")", "[", "]", "{", "}", "<", ">", ",", ":", "=>", "^", "*", "?", "+", "#", "#6", "#6.1", "#7.", "&", "~", "..", "...", ".",
  "\"", "'", ";", " ", "\n", "\r\n", "\t", "a", "b", "int", "1", "0", "-", "$", "$$", "@", "_", "h'", "b64'", "H'", "\\", ".size", ".cbor", ".cborseq", ".foo", "0x", "0b",
  "1e", "e5", ".5", "1.", "2*3", "\"x\"", "'y'", "\\u{41}", "\\u0041", "\\q", "\u{e9}", "; c\n",
];

fn mutate(t: &mut Tape, text: &str) -> String {
  let mut s = text.to_string();
  let edits = 1 + t.below(2);
  for _ in 0..edits {
    let idxs: Vec<usize> = s.char_indices().map(|(i, _)| i).chain(std::iter::once(s.len())).collect();
    let at = idxs[t.below(idxs.len())];
    match t.weighted(&[30, 35, 10, 15, 10]) {
      0 => {
        if at < s.len() {
          let l = s[at..].chars().next().unwrap().len_utf8();
          s.replace_range(at..at + l, "");
        }
      }
      1 => s.insert_str(at, *t.pick(ALPHABET)),
      2 => s.truncate(at),
      3 => {
        if at < s.len() {
          let l = s[at..].chars().next().unwrap().len_utf8();
          s.replace_range(at..at + l, *t.pick(ALPHABET));
        }
      }
      _ => {
        // swap two adjacent characters
        let cs: Vec<char> = s.chars().collect();
        if cs.len() >= 2 {
          let k = t.below(cs.len() - 1);
          let mut c2 = cs.clone();
          c2.swap(k, k + 1);
          s = c2.into_iter().collect();
        }
      }
    }
  }
  s
}

/// both directions on an arbitrary text. Err((law, message))
fn agreement(ctx: &Ctx, text: &str, st: &mut Stats, relax: bool) -> Result<(bool, bool), (String, String)> {
  let strict = derivable(text);
  let got = match calls::with_parsed(text, |_| ()) {
    Ok(()) => Ok(()),
    Err(Ok(e)) => Err(e),
    Err(Err(p)) => return Err(("parser_panic".into(), format!("the parser panicked at {}", p))),
  };
  match (&got, strict) {
    (Ok(()), true) | (Err(_), false) => {}
    (Ok(()), false) => {
      if relax && derivable_relaxed(ctx, text) {
        st.exclude("over_acceptance_listed_as_open_finding");
      } else {
        return Err(("accepts_underivable_text".into(), "the parser accepts a text that is not derivable from the RFC 8610 / RFC 9682 ABNF (with the documented leniencies)".into()));
      }
    }
    (Err(_), true) if !derivable_strict(text) => {
      // derivable only by splitting an identifier or number in the middle: either verdict is accepted
      st.count("derivable_only_with_split_tokens(not asserted)");
    }
    (Err(e), true) => {
      // derivable but rejected: only a syntax error is a grammar disagreement (duplicate rules, literal
      // values out of range, malformed base16 / base64 content are rejected after parsing by design)
      // On arbitrary (mutated) texts this direction is only counted: a derivable text may be rejected after parsing
      // by design (duplicate rules, literal values out of range, malformed base16 / base64 content), and many
      // derivations of mutated texts exist only because an optional element is left out where an ordered-choice
      // parser commits to taking it ("2*310=>b" as "2*" "310=>b").  Derivable => accepted is asserted by the
      // sub-check `positive`, whose texts come from derivations with unambiguous token boundaries.
      let first = e.lines().next().unwrap_or("");
      let _ = under_acceptance_excluded(ctx, text, st);
      st.count(if first.contains("msg: expected") || first.contains("syntax error") { "derivable_rejected_with_syntax_error(not asserted)" } else { "derivable_rejected_after_parsing(not a grammar matter)" });
    }
  }
  Ok((strict, got.is_ok()))
}

pub fn syn_opts(ctx: &Ctx) -> SynOpts {
  let mut o = SynOpts::default();
  o.no_double_dash_ids = ctx.excl("id_double_dash");
  o.no_group_socket_in_type_pos = ctx.excl("group_socket_in_type_position");
  o.no_type_socket_in_group_pos = ctx.excl("type_socket_in_group_position");
  o.no_paren_at_arrow_key_head = ctx.excl("c03:paren_at_arrow_key_head");
  o.radix_float_literals = !ctx.excl("c03:radix_float_mantissa");
  o.escaped_quote_in_bytes = !ctx.excl("c03:escaped_quote_in_bytes");
  o
}

/// positive direction + AST mirroring: a text derived from the grammar must be accepted and
/// its AST must have the skeleton of the derivation
/// `(tag <...> ` -> `(tag <> `: the type inside `#6.<...>` is kept as raw source text (open finding C16-F1), so
/// its spelling (optional commas, comments) cannot be compared with the derivation
fn blank_tag_types(sk: &str) -> String {
  let b: Vec<char> = sk.chars().collect();
  let mut out = String::new();
  let mut i = 0;
  let pat: Vec<char> = "(tag <".chars().collect();
  while i < b.len() {
    if b[i..].starts_with(&pat) {
      out.push_str("(tag <");
      i += pat.len();
      let mut depth = 1;
      let mut quote: Option<char> = None;
      while i < b.len() && depth > 0 {
        let c = b[i];
        match quote {
          Some(q) => {
            if c == '\\' {
              i += 1;
            } else if c == q {
              quote = None;
            }
          }
          None => match c {
            '"' | '\'' => quote = Some(c),
            '<' => depth += 1,
            '>' if i > 0 && b[i - 1] != '=' => depth -= 1,
            _ => {}
          },
        }
        i += 1;
      }
      out.push('>');
    } else {
      out.push(b[i]);
      i += 1;
    }
  }
  out
}

pub fn check_positive(text: &str, expected: &str) -> Result<(), String> {
  check_positive_opt(text, expected, false)
}

pub fn check_positive_opt(text: &str, expected: &str, blank_tags: bool) -> Result<(), String> {
  match calls::with_parsed(text, |c| skel_opt(c, &Opt { normalize_bare_names: true })) {
    Ok(sk) => {
      let (sk, expected) = if blank_tags { (blank_tag_types(&sk), blank_tag_types(expected)) } else { (sk, expected.to_string()) };
      let expected = expected.as_str();
      if sk == expected {
        Ok(())
      } else {
        let (a, b) = first_diff(expected, &sk);
        Err(format!("AST does not mirror the derivation: expected {} got {}", a, b))
      }
    }
    Err(Ok(e)) => Err(format!("derivable text rejected: {}", e.lines().next().unwrap_or(""))),
    Err(Err(p)) => Err(format!("parser panicked at {}", p)),
  }
}

fn first_diff(a: &str, b: &str) -> (String, String) {
  let la: Vec<&str> = a.lines().collect();
  let lb: Vec<&str> = b.lines().collect();
  for i in 0..la.len().max(lb.len()) {
    let x = la.get(i).copied().unwrap_or("<missing rule>");
    let y = lb.get(i).copied().unwrap_or("<missing rule>");
    if x != y {
      return (x.to_string(), y.to_string());
    }
  }
  (String::new(), String::new())
}

pub fn replay(_ctx: &Ctx, case: &J) -> Result<(), String> {
  match case["check"].as_str().unwrap_or("") {
    "positive" | "positive_trivia" => {
      let text = case["text"].as_str().ok_or("no text")?;
      let exp = case["expected_skel"].as_str().ok_or("no expected_skel")?;
      check_positive(text, exp)
    }
    "accepts_derivable" => {
      let text = case["text"].as_str().ok_or("no text")?;
      if !derivable_strict(text) {
        return Err("harness: the witness is not derivable".into());
      }
      match calls::parses(text) {
        Some(true) => Ok(()),
        Some(false) => Err("[rejects_derivable_text] the parser rejects a derivable text".into()),
        None => Err("parser panic".into()),
      }
    }
    "agreement" => {
      let text = case["text"].as_str().ok_or("no text")?;
      let mut st = Stats::default();
      agreement(_ctx, text, &mut st, false).map(|_| ()).map_err(|(l, m)| format!("[{}] {}", l, m))
    }
    other => Err(format!("unknown check {}", other)),
  }
}

fn nontrivial(s: &Schema, text: &str) -> bool {
  s.0.len() >= 2 || text.matches(|c| c == '[' || c == '{' || c == '(').count() >= 2
}

pub fn run(ctx: &Ctx) {
  ctx.set_rule(
    "oracle: an Earley recognizer over the ABNF text of RFC 8610 Appendix B as updated by RFC 9682 (vcore/src/cddl_abnf.rs), \
     extended by the leniencies the crate's grammar file documents (tab, final comment without line break, h\"..\", #(type)) \
     and with control names limited to the registered ones; two readings: plain context-free derivability, and derivability \
     with identifiers / numbers never split (longest match). positive: documents rendered from random derivations (own model \
     and printer, random blanks / tabs / CRLF / comments) are derivable under the strict reading by construction (self-check \
     of generator and oracle), must be accepted, and the AST skeleton must equal the skeleton of the derivation (rule order, \
     names, sockets, kind, assignment operator, generic parameters, nesting of choices / groups / occurrences / member keys / \
     operators, literal values). agreement: 1-2 character edits of such documents and strings of 1-9 tokens of the CDDL \
     alphabet - whatever the parser accepts must be derivable (plain reading, plus the relaxations that stand for open \
     findings); derivable-but-rejected is only counted there (semantic rejections and ordered-choice artefacts). \
     Non-trivial: >= 2 rules or >= 2 bracketed constructs (positive), every distinct text (agreement).",
  );

  let n = ctx.tier.pick(150_000, 4_000_000);
  let opts = syn_opts(ctx);
  search(ctx, "positive", n, 220, |t: &mut Tape, st: &mut Stats| {
    let s = SynGen::new(t, &opts).schema();
    let with_comments = t.flag();
    let mut tr = TapeTrivia::new(t, with_comments);
    tr.tabs = true;
    tr.crlf = true;
    tr.no_comments_in_tag_type = ctx.excl("comment_inside_tag_type_constraint");
    let text = render_with(&s, &mut tr);
    let exp = expected_skel(&s);
    st.eval();
    if !derivable_strict(&text) {
      // the generator follows the RFC grammar: this would be a defect of the harness (generator or oracle)
      let _ = std::fs::write("/tmp/c03_underivable.txt", &text);
      panic!("generated text is not derivable from the oracle grammar: {:?}", text);
    }
    match check_positive_opt(&text, &exp, ctx.excl("comment_inside_tag_type_constraint")) {
      Ok(()) => {
        if nontrivial(&s, &text) && st.nontrivial(&text) {
          st.sample(&text, || json!({"text": text, "accepted": true}));
        }
        Ok(())
      }
      Err(m) => Err(Fail::new(m, json!({"check": "positive", "text": text, "expected_skel": exp}))),
    }
  });

  let fx: Vec<String> = vec![];
  let _ = &fx;
  search(ctx, "agreement", n * 2, 260, |t: &mut Tape, st: &mut Stats| {
    let text = if t.chance(1, 5) {
      let k = 1 + t.below(9);
      let sep = if t.flag() { " " } else { "" };
      (0..k).map(|_| *t.pick(ALPHABET)).collect::<Vec<_>>().join(sep)
    } else {
      let s = SynGen::new(t, &opts).schema();
      let with_comments = t.flag();
      let mut tr = TapeTrivia::new(t, with_comments);
      tr.tabs = true;
      tr.crlf = true;
      let base = render_with(&s, &mut tr);
      mutate(t, &base)
    };
    st.eval();
    match agreement(ctx, &text, st, true) {
      Ok((der, acc)) => {
        st.count(match (der, acc) {
          (true, true) => "derivable_accepted",
          (false, false) => "underivable_rejected",
          (true, false) => "derivable_rejected(after parsing or listed)",
          (false, true) => "underivable_accepted(listed)",
        });
        if st.nontrivial(&text) {
          st.sample(&text, || json!({"text": text, "derivable": der, "accepted": acc}));
        }
        Ok(())
      }
      Err((law, msg)) => Err(Fail::new(format!("[{}] {} ; text={:?}", law, msg, text), json!({"check": "agreement", "law": law, "text": text}))),
    }
  });
}
