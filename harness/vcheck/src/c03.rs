//! C03 — the parser accepts exactly the RFC 8610/9682 grammar and mirrors it in the AST.
use vcore::calls;
use vcore::cmodel::{expected_skel, render_with, Schema, TapeTrivia};
use vcore::skel::{skel_opt, Opt};
use vcore::syngen::{SynGen, SynOpts};
use vcore::{json, search, Ctx, Fail, Stats, Tape, J};

pub fn syn_opts(ctx: &Ctx) -> SynOpts {
  let mut o = SynOpts::default();
  o.no_double_dash_ids = ctx.excl("id_double_dash");
  o.no_group_socket_in_type_pos = ctx.excl("group_socket_in_type_position");
  o
}

/// positive direction + AST mirroring: a text derived from the grammar must be accepted and
/// its AST must have the skeleton of the derivation
pub fn check_positive(text: &str, expected: &str) -> Result<(), String> {
  match calls::with_parsed(text, |c| skel_opt(c, &Opt { normalize_bare_names: true })) {
    Ok(sk) => {
      if sk == expected {
        Ok(())
      } else {
        let (a, b) = first_diff(expected, &sk);
        Err(format!("AST does not mirror the derivation: expected {} got {}", a, b))
      }
    }
    Err(Ok(e)) => Err(format!("derivable text rejected: {}", e.lines().next().unwrap_or(""))),
    Err(Err(p)) => Err(format!("parser panicked at {}", p)),
  }
}

fn first_diff(a: &str, b: &str) -> (String, String) {
  let la: Vec<&str> = a.lines().collect();
  let lb: Vec<&str> = b.lines().collect();
  for i in 0..la.len().max(lb.len()) {
    let x = la.get(i).copied().unwrap_or("<missing rule>");
    let y = lb.get(i).copied().unwrap_or("<missing rule>");
    if x != y {
      return (x.to_string(), y.to_string());
    }
  }
  (String::new(), String::new())
}

pub fn replay(_ctx: &Ctx, case: &J) -> Result<(), String> {
  match case["check"].as_str().unwrap_or("") {
    "positive" | "positive_trivia" => {
      let text = case["text"].as_str().ok_or("no text")?;
      let exp = case["expected_skel"].as_str().ok_or("no expected_skel")?;
      check_positive(text, exp)
    }
    other => Err(format!("unknown check {}", other)),
  }
}

fn nontrivial(s: &Schema, text: &str) -> bool {
  s.0.len() >= 2 || text.matches(|c| c == '[' || c == '{' || c == '(').count() >= 2
}

pub fn run(ctx: &Ctx) {
  ctx.set_rule(
    "positive: documents rendered from random derivations of the RFC 8610/9682 grammar (own model + printer, \
     random trivia) must be accepted and the AST skeleton must equal the skeleton of the derivation (rule order, \
     names, sockets, kind, assignment operator, generic parameters, nesting of choices/groups/occurrences/member \
     keys/operators, literal values). Non-trivial: >= 2 rules or >= 2 bracketed constructs; distinct texts.",
  );
  let n = ctx.tier.pick(20_000, 500_000);
  let opts = syn_opts(ctx);
  search(ctx, "positive", n, 220, |t: &mut Tape, st: &mut Stats| {
    let s = SynGen::new(t, &opts).schema();
    let with_comments = t.flag();
    let mut tr = TapeTrivia::new(t, with_comments);
    tr.tabs = true;
    tr.crlf = true;
    let text = render_with(&s, &mut tr);
    let exp = expected_skel(&s);
    st.eval();
    match check_positive(&text, &exp) {
      Ok(()) => {
        if nontrivial(&s, &text) && st.nontrivial(&text) {
          st.sample(&text, || json!({"text": text, "accepted": true}));
        }
        Ok(())
      }
      Err(m) => Err(Fail::new(m, json!({"check": "positive", "text": text, "expected_skel": exp}))),
    }
  });
}
