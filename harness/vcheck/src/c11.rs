//! C11 — CBOR decoding implements RFC 8949 well-formedness and values.
use cddl::validator::cbor_value::{decode_cbor, Value};
use vcore::cbor::{self, CVal};
use vcore::{json, search, sweep, Ctx, Fail, Stats, Tape, J};

pub fn to_cval(v: &Value) -> CVal {
  match v {
    Value::Integer(i) => CVal::Int(i128::from(*i)),
    Value::Bytes(b) => CVal::Bytes(b.clone()),
    Value::Float(f) => CVal::Float(f.to_bits()),
    Value::Text(s) => CVal::Text(s.clone()),
    Value::Bool(b) => CVal::bool(*b),
    Value::Null => CVal::null(),
    Value::Tag(t, x) => CVal::Tag(*t, Box::new(to_cval(x))),
    Value::Array(a) => CVal::Array(a.iter().map(to_cval).collect()),
    Value::Map(m) => CVal::Map(m.iter().map(|(k, v)| (to_cval(k), to_cval(v))).collect()),
    Value::Simple(n) => CVal::Simple(*n),
  }
}

/// equality of data-model values: floats by bits except that all NaNs are equal;
/// `undef_is_null`: the open finding "undefined decodes to Null" is tolerated
fn same(a: &CVal, b: &CVal, undef_is_null: bool) -> bool {
  match (a, b) {
    (CVal::Float(x), CVal::Float(y)) => x == y || (f64::from_bits(*x).is_nan() && f64::from_bits(*y).is_nan()),
    (CVal::Simple(x), CVal::Simple(y)) => {
      x == y || (undef_is_null && matches!((x, y), (22, 23) | (23, 22)))
    }
    (CVal::Array(x), CVal::Array(y)) => x.len() == y.len() && x.iter().zip(y).all(|(p, q)| same(p, q, undef_is_null)),
    (CVal::Map(x), CVal::Map(y)) => {
      x.len() == y.len()
        && x.iter().zip(y).all(|(p, q)| same(&p.0, &q.0, undef_is_null) && same(&p.1, &q.1, undef_is_null))
    }
    (CVal::Tag(t, x), CVal::Tag(u, y)) => t == u && same(x, y, undef_is_null),
    _ => a == b,
  }
}

fn contains_undefined(v: &CVal) -> bool {
  match v {
    CVal::Simple(23) => true,
    CVal::Array(a) => a.iter().any(contains_undefined),
    CVal::Map(m) => m.iter().any(|(k, v)| contains_undefined(k) || contains_undefined(v)),
    CVal::Tag(_, x) => contains_undefined(x),
    _ => false,
  }
}

pub enum Got {
  Ok(CVal),
  Err(String),
  Panic(String),
}

pub fn crate_decode(b: &[u8]) -> Got {
  match std::panic::catch_unwind(|| decode_cbor(b)) {
    Ok(Ok(v)) => Got::Ok(to_cval(&v)),
    Ok(Err(e)) => Got::Err(e.to_string()),
    Err(_) => Got::Panic(vcore::calls::last_panic()),
  }
}

/// The differential oracle on one byte string.
pub fn check_bytes(ctx: &Ctx, b: &[u8], st: Option<&mut Stats>) -> Result<(), String> {
  check_bytes_opt(b, st, ctx.excl("cbor_undefined_is_null"))
}

pub fn check_bytes_opt(b: &[u8], st: Option<&mut Stats>, undef: bool) -> Result<(), String> {
  let reference = cbor::ref_decode(b);
  let got = crate_decode(b);
  let mut st = st;
  if let Some(st) = st.as_deref_mut() {
    st.count(match &reference {
      Ok(_) => "ref_ok",
      Err(_) => "ref_err",
    });
    if let Err(e) = &reference {
      st.count(&format!("ref_err:{:?}", e));
    }
  }
  match (&reference, &got) {
    (_, Got::Panic(p)) => Err(format!("decode_cbor panicked at {} on {}", p, cbor::hex(b))),
    (Ok((rv, _)), Got::Ok(gv)) => {
      if undef && contains_undefined(rv) && !same(rv, gv, false) && same(rv, gv, true) {
        if let Some(st) = st.as_deref_mut() {
          st.exclude("cbor_undefined_is_null");
        }
        return Ok(());
      }
      if same(rv, gv, false) {
        Ok(())
      } else {
        Err(format!("wrong value for {}: RFC 8949 value {} but decoder returned {}", cbor::hex(b), rv.diag(), gv.diag()))
      }
    }
    (Err(_), Got::Err(_)) => Ok(()),
    (Ok((rv, _)), Got::Err(e)) => {
      Err(format!("well-formed item {} (= {}) rejected by the decoder: {}", cbor::hex(b), rv.diag(), e))
    }
    (Err(re), Got::Ok(gv)) => {
      Err(format!("ill-formed input {} ({:?}) accepted by the decoder as {}", cbor::hex(b), re, gv.diag()))
    }
  }
}

pub fn replay(_ctx: &Ctx, case: &J) -> Result<(), String> {
  let b = cbor::unhex(case["bytes"].as_str().ok_or("no bytes")?);
  // strict: no tolerance for open findings
  check_bytes_opt(&b, None, false)
}

fn eval(ctx: &Ctx, check: &str, b: &[u8], kind: &str, st: &mut Stats) -> Result<(), Fail> {
  st.eval();
  st.count(kind);
  match check_bytes(ctx, b, Some(st)) {
    Ok(()) => {
      let heads = cbor::ref_heads(b);
      if (heads >= 2 || (cbor::ref_decode(b).is_err() && !b.is_empty())) && st.nontrivial(b) {
        st.sample(b, || {
          json!({"bytes": cbor::hex(b), "kind": kind,
                 "rfc8949": match cbor::ref_decode(b) { Ok((v, n)) => format!("{} ({} bytes)", v.diag(), n), Err(e) => format!("ill-formed: {:?}", e) }})
        });
      }
      Ok(())
    }
    Err(m) => Err(Fail::new(m, json!({"check": check, "bytes": cbor::hex(b), "kind": kind}))),
  }
}

pub fn run(ctx: &Ctx) {
  ctx.set_rule(
    "differential against a reference decoder written from RFC 8949 section 3 / Appendix C: for every input, \
     decode_cbor(b).is_ok() must equal well-formedness of the first item (incl. UTF-8 validity of text, chunk rules, \
     reserved additional information, break placement, two-byte simple values < 32) and the returned value must equal \
     the data-model value (integers as i128, floats by bits with all NaNs equal, tags, simple values by number, \
     concatenated chunks, element/pair order). Inputs: (exhaustive) every byte string up to the stated length; \
     (structured) random data items encoded with random head widths, indefinite lengths, chunking and float widths; \
     (mutated) one byte-level mutation of a structured encoding: prefixes, bit flips, breaks inserted/removed, \
     reserved ai, lying length heads, forced indefinite, trailing bytes; (bad_strings) hand-built chunk / UTF-8 \
     violations; (long_strings) text / byte strings of 4094..16385 bytes and arrays / maps of 4095..8193 elements \
     around the decoder's 4096 pre-allocation step: definite, wrapped, indefinite / chunked, and heads claiming one \
     element more or fewer than present. Non-trivial: the input has >= 2 heads, or is a non-empty ill-formed input; distinct = distinct bytes.",
  );
  ctx.assume("all NaN bit patterns are one data-model value; widening f16/f32 -> f64 is value preserving");
  ctx.assume("generated inputs are bounded (<= ~1 KiB, nesting <= 8 for generated items; deeper nesting arises only from mutations); long inputs (up to ~40 KiB) come from the fixed long_strings families only");

  // exhaustive scopes
  let maxlen = ctx.tier.pick(3usize, 4usize);
  for len in 0..=maxlen {
    let total: u64 = 256u64.pow(len as u32);
    let blocks: Vec<u64> = (0..total.div_ceil(65536).max(1)).collect();
    sweep(ctx, &format!("exhaustive_len{}", len), &blocks, |blk, st| {
      let lo = blk * 65536;
      let hi = (lo + 65536).min(total);
      for x in lo..hi {
        let bytes: Vec<u8> = (0..len).map(|i| (x >> (8 * (len - 1 - i))) as u8).collect();
        st.eval();
        if let Err(m) = check_bytes(ctx, &bytes, None) {
          return Err(Fail::new(m, json!({"check": "exhaustive", "bytes": cbor::hex(&bytes), "kind": "exhaustive"})));
        }
        if len >= 2 && (cbor::ref_heads(&bytes) >= 2 || cbor::ref_decode(&bytes).is_err()) {
          st.nontrivial_enumerated();
          if x % 4099 == 0 {
            st.sample(&bytes, || json!({"bytes": cbor::hex(&bytes), "kind": "exhaustive"}));
          }
        }
      }
      Ok(())
    });
  }
  ctx.set_extra("exhaustive_up_to_len", json!(maxlen));

  let n = ctx.tier.pick(1_000_000u64, 20_000_000u64);
  search(ctx, "structured", n, 160, |t: &mut Tape, st: &mut Stats| {
    let v = cbor::gen_cval(t, 4);
    let (b, nc) = cbor::encode_knobs(&v, t);
    if nc {
      st.count("noncanonical_encoding");
    }
    // by construction the value is known: the reference decoder must agree with the generator
    match cbor::ref_decode(&b) {
      Ok((rv, used)) if same(&rv, &v, false) && used == b.len() => {}
      other => panic!("harness: reference decoder disagrees with encoder on {}: {:?}", cbor::hex(&b), other.map(|x| x.0.diag())),
    }
    eval(ctx, "structured", &b, "structured", st)
  });

  search(ctx, "mutated", n * 3, 170, |t: &mut Tape, st: &mut Stats| {
    let v = cbor::gen_cval(t, 3);
    let (b, _) = cbor::encode_knobs(&v, t);
    let (mut m, mut kind) = cbor::mutate(t, &b);
    if t.chance(1, 4) {
      let (m2, k2) = cbor::mutate(t, &m);
      m = m2;
      kind = k2;
    }
    eval(ctx, "mutated", &m, kind, st)
  });

  search(ctx, "bad_strings", ctx.tier.pick(3_000, 30_000), 40, |t: &mut Tape, st: &mut Stats| {
    let (mut b, kind) = cbor::gen_bad_string(t);
    // optionally embedded in an array / tag / map value
    match t.below(4) {
      1 => {
        b.insert(0, 0x81);
      }
      2 => {
        b.insert(0, 0xc1);
      }
      3 => {
        let mut w = vec![0xbf, 0x01];
        w.extend_from_slice(&b);
        w.push(0xff);
        b = w;
      }
      _ => {}
    }
    eval(ctx, "bad_strings", &b, kind, st)
  });

  // long strings: lengths around multiples of 4096 (internal read buffers), definite and chunked, text with a
  // multi-byte character straddling each boundary, bare and inside an array
  let mut long: Vec<Vec<u8>> = vec![];
  let head = |mt: u8, n: usize| -> Vec<u8> {
    let mut h = vec![];
    cbor::head(&mut h, mt, n as u64, 0);
    h
  };
  for &len in &[4094usize, 4095, 4096, 4097, 4098, 8191, 8192, 8193, 12289, 16385] {
    let bytes: Vec<u8> = (0..len).map(|i| (i % 251) as u8).collect();
    // text of exactly `len` bytes: `lead` ASCII letters, then two-byte characters (so that one of them crosses
    // offset 4096 / 8192 for one of the two parities), ASCII padding at the end
    let mk_text = |lead: usize| -> String {
      let mut t = "a".repeat(lead.min(len));
      while t.len() + 2 <= len {
        t.push('\u{e9}');
      }
      while t.len() < len {
        t.push('z');
      }
      t
    };
    let text = mk_text(0);
    let odd_text = mk_text(1);
    for (mt, payload) in [(2u8, bytes.clone()), (3u8, text.into_bytes()), (3u8, odd_text.into_bytes())] {
      if mt == 3 && std::str::from_utf8(&payload).is_err() {
        continue;
      }
      let mut def = head(mt, payload.len());
      def.extend_from_slice(&payload);
      long.push(def.clone());
      let mut arr = vec![0x82];
      arr.extend_from_slice(&def);
      arr.push(0x01);
      long.push(arr);
      // chunked at 4096 and at 1 (chunks must themselves be valid UTF-8 for text)
      for split in [1usize, 4096, payload.len() / 2] {
        if split == 0 || split >= payload.len() {
          continue;
        }
        if mt == 3 && (std::str::from_utf8(&payload[..split]).is_err() || std::str::from_utf8(&payload[split..]).is_err()) {
          continue;
        }
        let mut ind = vec![(mt << 5) | 31];
        ind.extend_from_slice(&head(mt, split));
        ind.extend_from_slice(&payload[..split]);
        ind.extend_from_slice(&head(mt, payload.len() - split));
        ind.extend_from_slice(&payload[split..]);
        ind.push(0xff);
        long.push(ind);
      }
    }
  }
  // arrays and maps around the same pre-allocation bound: definite, indefinite, and a head that claims one more
  // element than the input holds (must be an error, not a shorter container)
  for &n in &[4095usize, 4096, 4097, 8193] {
    let mut items: Vec<u8> = vec![];
    let mut pairs: Vec<u8> = vec![];
    for i in 0..n {
      let mut e = vec![];
      match i % 3 {
        0 => cbor::head(&mut e, 0, i as u64, 0),
        1 => cbor::head(&mut e, 1, (i % 300) as u64, 0),
        _ => {
          e.push(0x61);
          e.push(b'a' + (i % 26) as u8);
        }
      }
      items.extend_from_slice(&e);
      cbor::head(&mut pairs, 0, i as u64, 0);
      pairs.extend_from_slice(&e);
    }
    for (mt, body) in [(4u8, &items), (5u8, &pairs)] {
      let mut def = head(mt, n);
      def.extend_from_slice(body);
      long.push(def.clone());
      let mut wrapped = vec![0x82];
      wrapped.extend_from_slice(&def);
      wrapped.push(0x01);
      long.push(wrapped);
      let mut ind = vec![(mt << 5) | 31];
      ind.extend_from_slice(body);
      ind.push(0xff);
      long.push(ind);
      let mut lying = head(mt, n + 1);
      lying.extend_from_slice(body);
      long.push(lying);
      let mut trailing = head(mt, n - 1);
      trailing.extend_from_slice(body);
      long.push(trailing);
    }
  }
  sweep(ctx, "long_strings", &long, |b, st| eval(ctx, "long_strings", b, "long_string", st));
}
