//! C15 — source positions in the AST and in parse errors are accurate.
use cddl::lexer::Position;
use cddl::parser::Error as PErr;
use vcore::calls;
use vcore::cmodel::{render_with, TapeTrivia};
use vcore::spans::{self, Broken};
use vcore::syngen::{SynGen, SynOpts};
use vcore::{json, search, sweep, Ctx, Fail, Stats, Tape, J};

pub enum Out {
  Accepted { broken: Vec<Broken>, nodes: usize },
  Rejected { broken: Vec<Broken>, pos: Option<Position>, msg: String },
  Panic(String),
}

/// Parse with the entry point that exposes the structured error and apply the laws.
pub fn observe(text: &str, checked: bool) -> Out {
  let _w = calls::in_call(|| json!({"call": "cddl_from_pest_str", "text": text}).to_string());
  let r = std::panic::catch_unwind(|| {
    let res = if checked { cddl::pest_bridge::cddl_from_pest_str_checked(text) } else { cddl::pest_bridge::cddl_from_pest_str(text) };
    match res {
      Ok(c) => Out::Accepted { broken: spans::check_ast(text, &c), nodes: spans::count(&spans::tree(&c)) },
      Err(PErr::PARSER { position, msg }) => {
        Out::Rejected { broken: spans::check_position(text, position.line, position.column, position.range, position.index), pos: Some(position), msg: msg.short }
      }
      Err(e) => Out::Rejected { broken: vec![], pos: None, msg: e.to_string() },
    }
  });
  match r {
    Ok(o) => o,
    Err(_) => Out::Panic(calls::last_panic()),
  }
}

fn excluded(ctx: &Ctx, sig: &str, st: &mut Stats) -> bool {
  // exclusion names are "c15:<signature prefix>"
  for name in ctx.exclusions() {
    if let Some(p) = name.strip_prefix("c15:") {
      if sig.starts_with(p) {
        st.exclude(&name);
        return true;
      }
    }
  }
  false
}

fn judge(ctx: &Ctx, check: &str, text: &str, checked: bool, st: &mut Stats) -> Result<Option<Out>, Fail> {
  st.eval();
  let o = observe(text, checked);
  let broken = match &o {
    Out::Accepted { broken, .. } => {
      st.count("accepted");
      broken
    }
    Out::Rejected { broken, pos, .. } => {
      st.count(if pos.is_some() { "rejected_with_position" } else { "rejected_other_error" });
      broken
    }
    Out::Panic(p) => {
      st.crash(&calls::panic_site(p));
      return Ok(None);
    }
  };
  if survey() {
    for (sig, msg) in broken {
      survey_add(sig, msg, text);
    }
    return Ok(Some(o));
  }
  for (sig, msg) in broken {
    if excluded(ctx, sig, st) {
      continue;
    }
    return Err(Fail::new(format!("[{}] {} ; text={:?}", sig, msg, text), json!({"check": check, "text": text, "checked": checked, "law": sig})));
  }
  Ok(Some(o))
}

fn survey() -> bool {
  std::env::var("VERIF_SURVEY").is_ok()
}
static SURVEY: std::sync::Mutex<Option<std::collections::BTreeMap<String, (usize, String, String)>>> = std::sync::Mutex::new(None);
fn survey_add(sig: &str, msg: &str, text: &str) {
  let mut g = SURVEY.lock().unwrap();
  let m = g.get_or_insert_with(Default::default);
  let e = m.entry(sig.to_string()).or_insert((0, msg.to_string(), text.to_string()));
  e.0 += 1;
  if text.len() < e.2.len() {
    e.1 = msg.to_string();
    e.2 = text.to_string();
  }
}
fn survey_dump() {
  if let Some(m) = SURVEY.lock().unwrap().as_ref() {
    let mut s = String::new();
    for (k, (n, msg, text)) in m {
      s.push_str(&format!("{:7} {}\n        {}\n        text={:?}\n", n, k, msg, text));
    }
    let _ = std::fs::write("/tmp/survey_c15.txt", s);
  }
}

pub fn replay(ctx: &Ctx, case: &J) -> Result<(), String> {
  let text = case["text"].as_str().ok_or("no text")?;
  let checked = case["checked"].as_bool().unwrap_or(false);
  let only = case["law"].as_str();
  let _ = ctx;
  match observe(text, checked) {
    Out::Panic(p) => Err(format!("panic at {}", p)),
    Out::Accepted { broken, .. } | Out::Rejected { broken, .. } => {
      // a witness names one law; other (separately listed) laws broken by the same text are not its business
      match broken.iter().find(|(s, _)| only.map(|o| s == o).unwrap_or(true)) {
        Some((sig, msg)) => Err(format!("[{}] {}", sig, msg)),
        None => Ok(()),
      }
    }
  }
}

const INSERTS: &[&str] = &[
  "=", "/", "//", "(", ")", "[", "]", "{", "}", "<", ">", ",", ":", "=>", "^", "*", "?", "+", "#", "&", "~", "..", "...", ".", "\"", "'", ";", " ", "\n", "\r\n", "\t", "a", "1",
  "-", "$", "$$", "@", "_", "\u{e9}", "\u{4e16}", "\u{1f600}", "h'", "b64'", "\\", ".size", ".foo", "0x", "1e", "#6.", "99999999999999999999999", "h'0'", "\"\\u{110000}\"", "; \u{e9}\u{4e16}",
];

/// one or two edits of an accepted text: mostly rejected afterwards
fn mutate(t: &mut Tape, text: &str) -> String {
  let mut s = text.to_string();
  let edits = 1 + t.below(2);
  for _ in 0..edits {
    let idxs: Vec<usize> = s.char_indices().map(|(i, _)| i).chain(std::iter::once(s.len())).collect();
    let at = idxs[t.below(idxs.len())];
    match t.weighted(&[30, 30, 15, 15, 10]) {
      0 => {
        // delete one character
        if at < s.len() {
          let l = s[at..].chars().next().unwrap().len_utf8();
          s.replace_range(at..at + l, "");
        }
      }
      1 => s.insert_str(at, *t.pick(INSERTS)),
      2 => s.truncate(at),
      3 => {
        // replace one character
        if at < s.len() {
          let l = s[at..].chars().next().unwrap().len_utf8();
          s.replace_range(at..at + l, *t.pick(INSERTS));
        }
      }
      _ => {
        // append at the end (errors at end of input)
        s.push_str(*t.pick(INSERTS));
      }
    }
  }
  s
}

fn fixtures() -> Vec<(String, String)> {
  let mut out = vec![];
  let mut stack = vec![std::path::PathBuf::from("/repo/tests/fixtures"), std::path::PathBuf::from("/repo/www")];
  while let Some(d) = stack.pop() {
    if let Ok(rd) = std::fs::read_dir(&d) {
      let mut es: Vec<_> = rd.filter_map(|e| e.ok()).map(|e| e.path()).collect();
      es.sort();
      for p in es {
        if p.is_dir() {
          if p.file_name().map(|n| n == "node_modules").unwrap_or(false) {
            continue;
          }
          stack.push(p);
        } else if p.extension().map(|e| e == "cddl").unwrap_or(false) {
          if let Ok(t) = std::fs::read_to_string(&p) {
            out.push((p.display().to_string(), t));
          }
        }
      }
    }
  }
  out.sort();
  out
}

fn gen_text(t: &mut Tape, opts: &SynOpts) -> String {
  let s = SynGen::new(t, opts).schema();
  let mut tr = TapeTrivia::new(t, true);
  tr.crlf = true;
  tr.tabs = true;
  tr.nonascii_comments = true;
  let mut text = render_with(&s, &mut tr);
  match t.below(4) {
    0 => text.push('\n'),
    1 => text.push_str("; tail \u{e9}\u{4e16}"),
    2 => text.insert_str(0, "; head \u{1f600}\r\n\n"),
    _ => {}
  }
  text
}

pub fn run(ctx: &Ctx) {
  ctx.set_rule(
    "cases: (1) accepted documents rendered from random grammar derivations with random blanks, tabs, LF / CRLF line \
     breaks, comments (incl. multi-byte UTF-8) at every S position, non-ASCII text literals, leading / trailing \
     comments; oracle = the laws of the statement evaluated on the tree of all span-bearing AST nodes (rule, \
     identifier, generic params / args, type, type1, operator, every type2 variant, group, group choice, group \
     entry, member key, occurrence): bounds, UTF-8 boundaries, line = 1 + number of LF before start, child inside \
     parent, siblings ordered and disjoint, identifier span text == socket prefix + name, rule span starts at its \
     name. (2) one or two edits (delete / insert / replace / truncate / append, incl. multi-byte and end-of-input) \
     of such documents and short strings over the CDDL alphabet; when rejected, the reported position must lie in \
     the input on character boundaries with a non-inverted range, line = 1 + LF before index, column = 1 + \
     characters between line start and index; when still accepted, the AST laws apply. Both parse entry points \
     (plain and with the undefined-reference check). Non-trivial: accepted documents with >= 12 span-bearing nodes \
     and either a line break inside a rule or a multi-byte character; rejected documents whose error index is not \
     0; distinct by text.",
  );
  let n = ctx.tier.pick(500_000, 12_000_000);
  let opts = SynOpts::default();

  search(ctx, "ast_spans", n, 260, |t: &mut Tape, st: &mut Stats| {
    let text = gen_text(t, &opts);
    let checked = t.chance(1, 4);
    if let Some(Out::Accepted { nodes, .. }) = judge(ctx, "ast_spans", &text, checked, st)? {
      let multi = !text.is_ascii();
      if multi {
        st.count("multibyte");
      }
      if text.contains("\r\n") {
        st.count("crlf");
      }
      if nodes >= 12 && (multi || text.trim_end().contains('\n')) && st.nontrivial(&text) {
        st.sample(&text, || json!({"text": text, "span_nodes": nodes}));
      }
    }
    Ok(())
  });

  search(ctx, "error_positions", n, 300, |t: &mut Tape, st: &mut Stats| {
    let text = if t.chance(1, 6) {
      // short arbitrary strings over the alphabet
      let k = t.below(8);
      (0..k).map(|_| *t.pick(INSERTS)).collect::<Vec<_>>().join(if t.flag() { " " } else { "" })
    } else {
      let base = gen_text(t, &opts);
      mutate(t, &base)
    };
    let checked = t.chance(1, 3);
    match judge(ctx, "error_positions", &text, checked, st)? {
      Some(Out::Rejected { pos: Some(p), msg, .. }) => {
        if p.index == text.len() {
          st.count("error_at_end_of_input");
        }
        if !text.is_ascii() {
          st.count("multibyte");
        }
        if p.range.0 < p.index || p.range.0 != p.index {
          st.count("range_moved_from_index");
        }
        if p.index != 0 && st.nontrivial(&text) {
          st.sample(&text, || json!({"text": text, "line": p.line, "column": p.column, "range": [p.range.0, p.range.1], "index": p.index, "msg": msg}));
        }
      }
      _ => {}
    }
    Ok(())
  });

  let fx = fixtures();
  sweep(ctx, "fixtures", &fx, |(_, text), st| judge(ctx, "fixtures", text, false, st).map(|_| ()));
  if survey() {
    survey_dump();
  }
}
