//! C10 — map validation does not depend on entry order (document pairs, disjoint schema members);
//! duplicate keys are never collapsed.
use crate::semcheck::{survey_add, survey_dump, survey_on};
use vcore::calls::{self, V};
use vcore::cbor::{self, CVal};
use vcore::cmodel::*;
use vcore::jsonw;
use vcore::sample::near_miss;
use vcore::sem::{Sem, SemOpts, Verdict};
use vcore::{json, search, Ctx, Fail, Stats, Tape, J};

#[derive(Clone, Debug, PartialEq)]
enum KDom {
  LitText(String),
  LitInt(i128),
  Tstr,
  Int,
  Uint,
  Bstr,
  Any,
}

impl KDom {
  fn overlaps(&self, o: &KDom) -> bool {
    use KDom::*;
    match (self, o) {
      (Any, _) | (_, Any) => true,
      (LitText(a), LitText(b)) => a == b,
      (LitInt(a), LitInt(b)) => a == b,
      (LitText(_), Tstr) | (Tstr, LitText(_)) | (Tstr, Tstr) => true,
      (LitInt(_), Int) | (Int, LitInt(_)) | (Int, Int) | (Int, Uint) | (Uint, Int) | (Uint, Uint) => true,
      (LitInt(a), Uint) | (Uint, LitInt(a)) => *a >= 0,
      (Bstr, Bstr) => true,
      _ => false,
    }
  }
}

#[derive(Clone, Debug)]
struct Member {
  dom: KDom,
  ent: Ent,
}

fn key_in_dom(d: &KDom, k: &CVal) -> bool {
  match (d, k) {
    (KDom::Any, _) => true,
    (KDom::LitText(a), CVal::Text(b)) => a == b,
    (KDom::LitInt(a), CVal::Int(b)) => a == b,
    (KDom::Tstr, CVal::Text(_)) => true,
    (KDom::Int, CVal::Int(_)) => true,
    (KDom::Uint, CVal::Int(i)) => *i >= 0,
    (KDom::Bstr, CVal::Bytes(_)) => true,
    _ => false,
  }
}

fn value_in_ty(ty: &Ty, v: &CVal) -> bool {
  let s = Schema(vec![RuleM { name: "root".into(), params: vec![], alt: false, body: Body::Ty(ty.clone()) }]);
  Sem::new(&s, SemOpts::default()).accepts(v) == Verdict::Accept
}

/// The shape the open finding C10-F1 describes: some pair's key falls into the key set of a member that precedes (in
/// schema order) the member the pair could belong to, and the pair's value does not match that first member - the
/// validator claims the pair for the first member and reports the value mismatch at once. Also: more pairs compete for
/// a member than it can take. When this returns false every pair is acceptable to the first member that can claim it.
fn greedy_claim_can_fail(members: &[Member], doc: &CVal) -> bool {
  let pairs = match doc {
    CVal::Map(p) => p,
    CVal::Array(a) => return a.iter().any(|x| greedy_claim_can_fail(members, x)),
    _ => return false,
  };
  for (k, v) in pairs {
    let mut first = true;
    for m in members {
      if key_in_dom(&m.dom, k) {
        if let EntKind::Val { ty, .. } = &m.ent.kind {
          let ok = value_in_ty(ty, v);
          if first && !ok {
            return true;
          }
          // a literal-key member later in the list would have to win over an earlier domain member
          if !first && matches!(m.dom, KDom::LitText(_) | KDom::LitInt(_)) {
            return true;
          }
        }
        first = false;
      }
    }
  }
  false
}

fn member_class(m: &Member) -> &'static str {
  let lit = matches!(m.dom, KDom::LitText(_) | KDom::LitInt(_));
  let (min, max) = vcore::sem::occ_bounds(&m.ent.occ);
  if lit {
    "lit"
  } else if max == Some(1) && min <= 1 {
    "single"
  } else {
    "table"
  }
}

/// which kinds of members have overlapping key sets (sorted, e.g. ["single~lit", "table~table"])
fn overlap_categories(members: &[Member]) -> Vec<String> {
  let mut out: Vec<String> = vec![];
  for (i, a) in members.iter().enumerate() {
    for b in members.iter().skip(i + 1) {
      if a.dom.overlaps(&b.dom) {
        let (x, y) = (member_class(a), member_class(b));
        let c = if x <= y { format!("{}~{}", x, y) } else { format!("{}~{}", y, x) };
        if !out.contains(&c) {
          out.push(c);
        }
      }
    }
  }
  out.sort();
  out
}

/// every overlap is between two required single members over the same type domain (the shape the bipartite
/// re-assignment of single-entry claims is built for)
fn only_same_domain_required_singles(members: &[Member]) -> bool {
  let mut overlaps = 0;
  for (i, a) in members.iter().enumerate() {
    for b in members.iter().skip(i + 1) {
      if a.dom.overlaps(&b.dom) {
        overlaps += 1;
        let ok = a.dom == b.dom && member_class(a) == "single" && member_class(b) == "single" && a.ent.occ.is_none() && b.ent.occ.is_none();
        if !ok {
          return false;
        }
      }
    }
  }
  // three or more members over one domain are order dependent on the unchanged tree as well (witnessed)
  overlaps <= 1
}

fn has_nested_map_member(members: &[Member]) -> bool {
  members.iter().any(|m| match &m.ent.kind {
    EntKind::Val { ty, .. } => ty.0.iter().any(|t| matches!(t.t2, Ty2::Map(_))),
    _ => false,
  })
}

fn name_t(n: &str) -> Ty {
  Ty::name(n)
}

const VALUE_POOL: &[&str] = &["int", "tstr", "bool", "any", "uint", "nil", "float"];

fn gen_value_ty(t: &mut Tape, cborm: bool, depth: usize) -> Ty {
  match t.weighted(&[40, 15, 15, 12, 8, if depth > 0 { 10 } else { 0 }]) {
    0 => name_t(*t.pick(VALUE_POOL)),
    1 => Ty(vec![Ty1::plain(Ty2::Name { name: "int".into(), args: vec![] }), Ty1::plain(Ty2::Name { name: "tstr".into(), args: vec![] })]),
    2 => Ty::one(Ty2::Lit(Lit::int(t.range(0, 5) as i128))),
    3 => Ty::one(Ty2::Lit(Lit::text(*t.pick(&["x", "y", ""])))),
    4 => Ty(vec![Ty1 { t2: Ty2::Lit(Lit::int(0)), op: Some((Op::Range { inclusive: true }, Ty2::Lit(Lit::int(t.range(1, 9) as i128)))) }]),
    _ => Ty::one(Ty2::Map(Grp(vec![gen_members(t, cborm, depth - 1, true).into_iter().map(|m| m.ent).collect()]))),
  }
}

/// `disjoint`: all members get pairwise disjoint key sets (schema members may then be permuted)
fn gen_members(t: &mut Tape, cborm: bool, depth: usize, disjoint: bool) -> Vec<Member> {
  let n = 1 + t.weighted(&[15, 30, 30, 15, 10]);
  let mut out: Vec<Member> = vec![];
  for _ in 0..n {
    let kind = t.weighted(&[45, 35, 20]);
    let (dom, occ) = match kind {
      0 => {
        let d = if cborm && t.chance(1, 4) {
          KDom::LitInt(t.range(-2, 6) as i128)
        } else {
          KDom::LitText((*t.pick(&["a", "b", "c", "id", "name"])).to_string())
        };
        (d, if t.chance(2, 5) { Some(Occ::Opt) } else { None })
      }
      1 => {
        let d = if cborm { t.pick(&[KDom::Tstr, KDom::Tstr, KDom::Int, KDom::Uint, KDom::Bstr, KDom::Any]).clone() } else { t.pick(&[KDom::Tstr, KDom::Tstr, KDom::Any]).clone() };
        (d, if t.chance(1, 3) { Some(Occ::Opt) } else { None })
      }
      _ => {
        let d = if cborm { t.pick(&[KDom::Tstr, KDom::Int, KDom::Uint, KDom::Any]).clone() } else { t.pick(&[KDom::Tstr, KDom::Any]).clone() };
        let occ = match t.below(4) {
          0 => Occ::Plus,
          1 => Occ::Range(Some(t.below(2) as u64), Some(2 + t.below(2) as u64)),
          _ => Occ::Star,
        };
        (d, Some(occ))
      }
    };
    if disjoint && out.iter().any(|m| m.dom.overlaps(&dom)) {
      continue;
    }
    if !disjoint && matches!(dom, KDom::LitText(_) | KDom::LitInt(_)) && out.iter().any(|m| m.dom == dom) {
      continue;
    }
    let key = match &dom {
      KDom::LitText(s) => {
        if t.flag() {
          Key::Bare(s.clone())
        } else {
          Key::Val(Lit::text(s))
        }
      }
      KDom::LitInt(i) => Key::Val(Lit::int(*i)),
      KDom::Tstr => Key::Arrow { t1: Ty1::plain(Ty2::Name { name: "tstr".into(), args: vec![] }), cut: false },
      KDom::Int => Key::Arrow { t1: Ty1::plain(Ty2::Name { name: "int".into(), args: vec![] }), cut: false },
      KDom::Uint => Key::Arrow { t1: Ty1::plain(Ty2::Name { name: "uint".into(), args: vec![] }), cut: false },
      KDom::Bstr => Key::Arrow { t1: Ty1::plain(Ty2::Name { name: "bstr".into(), args: vec![] }), cut: false },
      KDom::Any => Key::Arrow { t1: Ty1::plain(Ty2::Name { name: "any".into(), args: vec![] }), cut: false },
    };
    let ty = gen_value_ty(t, cborm, depth);
    out.push(Member { dom, ent: Ent { occ, kind: EntKind::Val { key: Some(key), ty } } });
  }
  if out.is_empty() {
    out.push(Member {
      dom: KDom::LitText("a".into()),
      ent: Ent { occ: None, kind: EntKind::Val { key: Some(Key::Bare("a".into())), ty: name_t("int") } },
    });
  }
  out
}

fn sample_value(t: &mut Tape, ty: &Ty, cborm: bool) -> CVal {
  let t1 = &ty.0[t.below(ty.0.len())];
  match (&t1.t2, &t1.op) {
    (Ty2::Lit(Lit::Int { v, .. }), None) => CVal::Int(*v),
    (Ty2::Lit(Lit::Int { v, .. }), Some((_, Ty2::Lit(Lit::Int { v: u, .. })))) => CVal::Int(*v + t.below((*u - *v + 2) as usize) as i128),
    (Ty2::Lit(Lit::Text { v, .. }), _) => CVal::Text(v.clone()),
    (Ty2::Name { name, .. }, _) => match name.as_str() {
      "int" => CVal::Int(t.range(-3, 9) as i128),
      "uint" => CVal::Int(t.range(0, 9) as i128),
      "tstr" => CVal::text(*t.pick(&["x", "y", "", "zz"])),
      "bool" => CVal::bool(t.flag()),
      "nil" => CVal::null(),
      "float" => CVal::f(1.5 + t.below(4) as f64),
      _ => match t.below(4) {
        0 => CVal::Int(t.range(-3, 9) as i128),
        1 => CVal::text(*t.pick(&["x", "y", ""])),
        2 => CVal::bool(true),
        _ => CVal::null(),
      },
    },
    (Ty2::Map(g), _) => {
      let members: Vec<Member> = g.0[0].iter().map(|e| Member { dom: KDom::Any, ent: e.clone() }).collect();
      sample_map(t, &members, cborm)
    }
    _ => CVal::null(),
  }
}

fn sample_key(t: &mut Tape, k: &Key, taken: &[(CVal, CVal)], cborm: bool) -> CVal {
  let base = match k {
    Key::Bare(b) => return CVal::Text(b.clone()),
    Key::Val(Lit::Text { v, .. }) => return CVal::Text(v.clone()),
    Key::Val(Lit::Int { v, .. }) => return CVal::Int(*v),
    Key::Arrow { t1, .. } => match &t1.t2 {
      Ty2::Name { name, .. } => name.as_str(),
      _ => "tstr",
    },
    _ => "tstr",
  };
  for i in 0..6 {
    let v = match base {
      "tstr" => CVal::text(&format!("{}{}", t.pick(&["k", "a", "b", "q"]), if i == 0 { "".to_string() } else { i.to_string() })),
      "int" => CVal::Int(t.range(-4, 8) as i128 + i as i128 * 10),
      "uint" => CVal::Int(t.range(0, 8) as i128 + i as i128 * 10),
      "bstr" => CVal::Bytes(vec![t.below(4) as u8, i as u8]),
      _ => {
        if cborm && t.flag() {
          CVal::Int(t.range(0, 9) as i128 + 20 * i as i128)
        } else {
          CVal::text(&format!("w{}", t.below(5) + i * 7))
        }
      }
    };
    if !taken.iter().any(|(x, _)| *x == v) {
      return v;
    }
  }
  CVal::text("fallback-key")
}

fn sample_map(t: &mut Tape, members: &[Member], cborm: bool) -> CVal {
  let mut pairs: Vec<(CVal, CVal)> = vec![];
  for m in members {
    let (min, max) = vcore::sem::occ_bounds(&m.ent.occ);
    let hi = max.unwrap_or(min + 2).min(min + 2);
    let n = min + t.below((hi - min + 1) as usize) as u64;
    if let EntKind::Val { key: Some(k), ty } = &m.ent.kind {
      for _ in 0..n {
        let kv = sample_key(t, k, &pairs, cborm);
        if pairs.iter().any(|(x, _)| *x == kv) {
          continue;
        }
        let v = sample_value(t, ty, cborm);
        pairs.push((kv, v));
      }
    }
  }
  CVal::Map(pairs)
}

/// deterministic permutation of the pairs of every map in the value, driven by the tape
fn permute(t: &mut Tape, v: &CVal) -> CVal {
  match v {
    CVal::Map(m) => {
      let mut items: Vec<(CVal, CVal)> = m.iter().map(|(k, x)| (k.clone(), permute(t, x))).collect();
      // Fisher-Yates
      for i in (1..items.len()).rev() {
        let j = t.below(i + 1);
        items.swap(i, j);
      }
      CVal::Map(items)
    }
    CVal::Array(a) => CVal::Array(a.iter().map(|x| permute(t, x)).collect()),
    CVal::Tag(n, x) => CVal::Tag(*n, Box::new(permute(t, x))),
    _ => v.clone(),
  }
}

fn has_map_with_2(v: &CVal) -> bool {
  match v {
    CVal::Map(m) => m.len() >= 2 || m.iter().any(|(_, x)| has_map_with_2(x)),
    CVal::Array(a) => a.iter().any(has_map_with_2),
    CVal::Tag(_, x) => has_map_with_2(x),
    _ => false,
  }
}

fn schema_of(members: &[Member], wrap_array: bool) -> Schema {
  let map = Ty2::Map(Grp(vec![members.iter().map(|m| m.ent.clone()).collect()]));
  let root = if wrap_array {
    Ty::one(Ty2::Arr(Grp(vec![vec![Ent { occ: Some(Occ::Star), kind: EntKind::Val { key: None, ty: Ty::one(map) } }]])))
  } else {
    Ty::one(map)
  };
  Schema(vec![RuleM { name: "root".into(), params: vec![], alt: false, body: Body::Ty(root) }])
}

fn validate(jsonm: bool, schema: &str, doc: &CVal) -> V {
  if jsonm {
    calls::validate_json(schema, &jsonw::to_json(doc))
  } else {
    calls::validate_cbor(schema, &cbor::encode(doc))
  }
}

pub fn replay(_ctx: &Ctx, case: &J) -> Result<(), String> {
  let jsonm = case["validator"].as_str() == Some("json");
  let schemas: Vec<String> = case["schemas"].as_array().ok_or("no schemas")?.iter().filter_map(|x| x.as_str().map(|s| s.to_string())).collect();
  let docs: Vec<String> = case["docs"].as_array().ok_or("no docs")?.iter().filter_map(|x| x.as_str().map(|s| s.to_string())).collect();
  let mut verdicts = vec![];
  for s in &schemas {
    for d in &docs {
      let r = if jsonm { calls::validate_json_local(s, d, None) } else { calls::validate_cbor_local(s, &cbor::unhex(d), None) };
      verdicts.push(r.accepts());
    }
  }
  if let Some(exp) = case["expected"].as_str() {
    let want = exp == "accept";
    if verdicts.iter().all(|v| *v == want) {
      return Ok(());
    }
    return Err(format!("expected {} for every pair, got {:?}", exp, verdicts));
  }
  if verdicts.iter().all(|v| *v == verdicts[0]) {
    Ok(())
  } else {
    Err(format!("verdict depends on entry order: {:?}", verdicts))
  }
}

pub fn run(ctx: &Ctx) {
  ctx.set_rule(
    "cases: a map schema with literal-key members, single type-domain members (several over the same key domain with \
     different value types) and table members, at top level or as `[* {..}]`; a document sampled from it (or a near miss) \
     with >= 2 pairs in some map. (doc_order) the verdict must be the same for the original and 4 random permutations of \
     the pairs of every map (CBOR encoding order; JSON text order); (schema_order) for schemas whose members have pairwise \
     disjoint key sets the verdict must be the same for 4 permutations of the members; (duplicates) CBOR maps in which \
     one pair is repeated are compared with the reference semantics (every physical pair needs its own slot). \
     Non-trivial: a non-identity permutation of a map with >= 2 pairs; distinct (schema, document).",
  );
  ctx.assume("serde_json is built without preserve_order, so JSON member order is erased before validation: the JSON half is a guard");
  calls::set_isolated(true, 10_000);
  let n = ctx.tier.pick(60_000u64, 1_500_000u64);
  let x_greedy = ctx.excl("cbor_type_domain_members_greedy_claim");
  for (jsonm, name) in [(false, "doc_order_cbor"), (true, "doc_order_json")] {
    let n = if jsonm { n / 6 } else { n };
    search(ctx, name, n, 300, |t: &mut Tape, st: &mut Stats| {
      let members = gen_members(t, !jsonm, 1, false);
      let wrap = t.chance(1, 4);
      let schema = schema_of(&members, wrap);
      let text = render(&schema);
      let mut doc = sample_map(t, &members, !jsonm);
      if t.chance(1, 3) {
        doc = near_miss(t, &doc, jsonm).0;
      }
      if wrap {
        let other = sample_map(t, &members, !jsonm);
        doc = CVal::Array(vec![doc, other]);
      }
      if jsonm && !jsonw::is_json_model(&doc) {
        return Ok(());
      }
      if !jsonm && !crate::c02::in_cbor_model(&doc) {
        return Ok(());
      }
      st.eval();
      if !has_map_with_2(&doc) {
        st.count("fewer_than_two_pairs(trivial)");
        return Ok(());
      }
      let base = validate(jsonm, &text, &doc);
      if matches!(base, V::Abort(_) | V::Hang | V::Panic(_)) {
        st.crash(base.class());
        return Ok(());
      }
      let mut docs = vec![doc.clone()];
      for _ in 0..4 {
        docs.push(permute(t, &doc));
      }
      let n_table = members.iter().filter(|m| matches!(m.dom, KDom::Tstr | KDom::Int | KDom::Uint | KDom::Bstr | KDom::Any)).count();
      st.count(if n_table > 0 { "schema_with_type_domain_key" } else { "schema_literal_keys_only" });
      st.count(if base.accepts() { "accepted" } else { "rejected" });
      for d in &docs[1..] {
        let r = validate(jsonm, &text, d);
        if matches!(r, V::Abort(_) | V::Hang | V::Panic(_)) {
          st.crash(r.class());
          continue;
        }
        if r.accepts() != base.accepts() {
          // overlapping type-domain members: greedy first-match claims (open finding)
          let cats = overlap_categories(&members);
          let overlapping = !cats.is_empty();
          if survey_on() && std::env::var("VERIF_C10_CATS").is_ok() {
            survey_add(&format!("{} cats={:?}", name, cats), &V::OtherErr(format!("{} -> {}", base.brief(), r.brief())), format!("{:?} {} vs {}", text, doc.diag(), d.diag()));
            return Ok(());
          }
          if x_greedy && overlapping && (greedy_claim_can_fail(&members, &doc) || has_nested_map_member(&members) || !only_same_domain_required_singles(&members)) {
            st.exclude("cbor_type_domain_members_greedy_claim");
            return Ok(());
          }
          if survey_on() {
            survey_add(&format!("{} base={}", name, base.class()), &r, format!("{:?} {} vs {}", text, doc.diag(), d.diag()));
            return Ok(());
          }
          return Err(Fail::new(
            format!("verdict depends on the order of map entries: schema {:?}: {} -> {} ; {} -> {}", text, doc.diag(), base.brief(), d.diag(), r.brief()),
            json!({"check": name, "validator": if jsonm { "json" } else { "cbor" }, "schemas": [text],
                   "docs": if jsonm { vec![jsonw::to_json(&doc), jsonw::to_json(d)] } else { vec![cbor::hex(&cbor::encode(&doc)), cbor::hex(&cbor::encode(d))] },
                   "diag": [doc.diag(), d.diag()]}),
          ));
        }
      }
      let key = (&text, doc.diag());
      if st.nontrivial(&key) {
        st.sample(&key, || json!({"schema": text, "document": doc.diag(), "permutation": docs[1].diag(), "verdict": base.class()}));
      }
      Ok(())
    });
  }

  for (jsonm, name) in [(false, "schema_order_cbor"), (true, "schema_order_json")] {
    search(ctx, name, n / 2, 300, |t: &mut Tape, st: &mut Stats| {
      let members = gen_members(t, !jsonm, 1, true);
      if members.len() < 2 {
        return Ok(());
      }
      let mut doc = sample_map(t, &members, !jsonm);
      if t.chance(1, 2) {
        doc = near_miss(t, &doc, jsonm).0;
      }
      if jsonm && !jsonw::is_json_model(&doc) {
        return Ok(());
      }
      if !jsonm && !crate::c02::in_cbor_model(&doc) {
        return Ok(());
      }
      st.eval();
      let text = render(&schema_of(&members, false));
      let base = validate(jsonm, &text, &doc);
      if matches!(base, V::Abort(_) | V::Hang | V::Panic(_)) {
        st.crash(base.class());
        return Ok(());
      }
      st.count(if base.accepts() { "accepted" } else { "rejected" });
      for _ in 0..4 {
        let mut ms = members.clone();
        for i in (1..ms.len()).rev() {
          let j = t.below(i + 1);
          ms.swap(i, j);
        }
        let text2 = render(&schema_of(&ms, false));
        if text2 == text {
          continue;
        }
        let r = validate(jsonm, &text2, &doc);
        if matches!(r, V::Abort(_) | V::Hang | V::Panic(_)) {
          st.crash(r.class());
          continue;
        }
        if r.accepts() != base.accepts() {
          if survey_on() {
            survey_add(&format!("{} base={}", name, base.class()), &r, format!("{:?} vs {:?} doc {}", text, text2, doc.diag()));
            return Ok(());
          }
          return Err(Fail::new(
            format!("verdict depends on the order of disjoint-key schema members: {:?} -> {} ; {:?} -> {} (document {})", text, base.brief(), text2, r.brief(), doc.diag()),
            json!({"check": name, "validator": if jsonm { "json" } else { "cbor" }, "schemas": [text, text2],
                   "docs": [if jsonm { jsonw::to_json(&doc) } else { cbor::hex(&cbor::encode(&doc)) }], "diag": [doc.diag()]}),
          ));
        }
        let key = (&text, &text2, doc.diag());
        if st.nontrivial(&key) {
          st.sample(&key, || json!({"schema": text, "permuted_schema": text2, "document": doc.diag(), "verdict": base.class()}));
        }
      }
      Ok(())
    });
  }

  // duplicates: one pair repeated (same key, same or different value) in a CBOR map
  search(ctx, "duplicates_cbor", n / 3, 300, |t: &mut Tape, st: &mut Stats| {
    let members = gen_members(t, true, 0, false);
    let schema = schema_of(&members, false);
    let text = render(&schema);
    let doc = sample_map(t, &members, true);
    let mut pairs = match doc {
      CVal::Map(p) => p,
      _ => return Ok(()),
    };
    if pairs.is_empty() {
      return Ok(());
    }
    let i = t.below(pairs.len());
    let mut dup = pairs[i].clone();
    if t.flag() {
      dup.1 = CVal::Int(77);
    }
    let pos = t.below(pairs.len() + 1);
    pairs.insert(pos, dup);
    let doc = CVal::Map(pairs);
    if !crate::c02::in_cbor_model(&doc) {
      return Ok(());
    }
    st.eval();
    // only the property's own claim is asserted: every physical pair must be accounted for by some member
    // (cuts ignored, so that a wrong accept can only mean that a pair was dropped / collapsed)
    let sem = Sem::new(&schema, SemOpts { ignore_cuts: true, ..SemOpts::default() });
    let exp = sem.accepts(&doc);
    let exp = match exp {
      Verdict::Unsupported(w) => {
        st.count(&format!("oracle_unsupported:{}", w));
        return Ok(());
      }
      v => v,
    };
    let r = validate(false, &text, &doc);
    if matches!(r, V::Abort(_) | V::Hang | V::Panic(_)) {
      st.crash(r.class());
      return Ok(());
    }
    st.count(if exp == Verdict::Accept { "expected_accept" } else { "expected_reject" });
    if (exp == Verdict::Accept) == r.accepts() {
      let key = (&text, doc.diag());
      if st.nontrivial(&key) {
        st.sample(&key, || json!({"schema": text, "document_with_repeated_key": doc.diag(), "rfc8610": format!("{:?}", exp), "crate": r.class()}));
      }
      return Ok(());
    }
    if exp == Verdict::Accept {
      // a wrong reject is not a collapsed duplicate (greedy claims, cuts): not asserted here
      st.count("expected_accept_but_rejected(not asserted)");
      return Ok(());
    }
    if false && x_greedy {
      // a wrong reject with overlapping members is the greedy-claim finding, not a collapsed duplicate
      st.exclude("cbor_type_domain_members_greedy_claim");
      return Ok(());
    }
    if survey_on() {
      survey_add(&format!("duplicates exp={:?}", exp), &r, format!("{:?} {}", text, doc.diag()));
      return Ok(());
    }
    Err(Fail::new(
      format!("CBOR map with a repeated key: reference semantics (every physical pair needs a member) say {:?}, validator says {} ; schema {:?} document {}", exp, r.brief(), text, doc.diag()),
      json!({"check": "duplicates_cbor", "validator": "cbor", "schemas": [text], "docs": [cbor::hex(&cbor::encode(&doc))], "diag": [doc.diag()],
             "expected": if exp == Verdict::Accept { "accept" } else { "reject" }}),
    ))
  });
  if survey_on() {
    survey_dump(ctx);
  }
}
