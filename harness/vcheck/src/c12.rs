//! C12 — duplicate rule definitions and undefined references are always caught.
use vcore::{json, search, Ctx, Fail, Stats, Tape, J};

const POOL: &[&str] = &["a", "b", "c", "d-e", "f.g", "$s", "$$gs"];
const UNDEF: &[&str] = &["zz9", "nope", "undef-x", "A"];
/// RFC 8610 Appendix D
const PRELUDE: &[&str] = &[
  "any", "uint", "nint", "int", "bstr", "bytes", "tstr", "text", "tdate", "time", "number", "biguint", "bignint", "bigint", "integer",
  "unsigned", "decfrac", "bigfloat", "eb64url", "eb64legacy", "eb16", "encoded-cbor", "uri", "b64url", "b64legacy", "regexp",
  "mime-message", "cbor-any", "float16", "float32", "float64", "float16-32", "float32-64", "float", "false", "true", "bool", "nil",
  "null", "undefined",
];

#[derive(Clone, Debug)]
struct PRule {
  name: String,
  group: bool,
  incr: bool,
  params: Vec<String>,
  /// body text with the references already filled in
  body: String,
  /// names referenced from the body (with the position class they sit in)
  refs: Vec<(String, &'static str)>,
}

#[derive(Clone, Debug)]
pub struct Plan {
  rules: Vec<PRule>,
  text: String,
  /// byte offset of each rule's first character
  offsets: Vec<usize>,
}

fn gen_ref(t: &mut Tape, params: &[String], refs: &mut Vec<(String, &'static str)>, pos: &'static str, group_ok: bool) -> String {
  let _ = group_ok;
  // sockets only where the crate's grammar takes a type name or a group entry (`& $s`, `~ $s`, `$$g` in type
  // position are rejected by the parser: grammar-shaped deviations that belong to C03)
  let sock_ok = matches!(pos, "type" | "member value" | "type choice" | "array entry" | "group entry" | "tag content");
  let w = [30, 14, 22, if params.is_empty() { 0 } else { 16 }, 8, if sock_ok { 10 } else { 0 }];
  let n = match t.weighted(&w) {
    0 => (*t.pick(&POOL[..5])).to_string(),
    1 => (*t.pick(UNDEF)).to_string(),
    2 => (*t.pick(PRELUDE)).to_string(),
    3 => t.pick(params).clone(),
    4 => (*t.pick(&["t", "u"])).to_string(),
    _ => {
      // `$$name` only where a group name can stand (the parser rejects it in type position: open finding of C03)
      if pos == "group entry" {
        (*t.pick(&["$$gs", "$$unplugged", "$s"])).to_string()
      } else {
        (*t.pick(&["$s", "$other-sock"])).to_string()
      }
    }
  };
  refs.push((n.clone(), pos));
  n
}

fn gen_body(t: &mut Tape, group: bool, params: &[String], refs: &mut Vec<(String, &'static str)>) -> String {
  let mut r = |t: &mut Tape, pos: &'static str| gen_ref(t, params, refs, pos, false);
  if group {
    match t.below(5) {
      0 => format!("( x: {} , y: int )", r(t, "member value")),
      1 => format!("x: {}", r(t, "member value")),
      2 => format!("( {} , int )", r(t, "group entry")),
      3 => format!("( {} => {} , j: tstr )", r(t, "arrow key"), r(t, "member value")),
      _ => format!("? ( k: [ * {} ] , gen< {} > )", r(t, "array entry"), r(t, "generic argument")),
    }
  } else {
    match t.below(14) {
      0 => r(t, "type"),
      1 => format!("[ * {} ]", r(t, "array entry")),
      2 => format!("{{ k: {} }}", r(t, "member value")),
      3 => format!("{{ {} => int }}", r(t, "arrow key")),
      4 => format!("{{ * {} => {} }}", r(t, "arrow key"), r(t, "member value")),
      5 => format!("{} / int / {}", r(t, "type choice"), r(t, "type choice")),
      6 => format!("uint .lt {}", r(t, "control operand")),
      7 => format!("{} .. {}", r(t, "range bound"), r(t, "range bound")),
      8 => format!("~ {}", r(t, "unwrap")),
      9 => format!("& {}", r(t, "group to choice")),
      10 => format!("#6.1( {} )", r(t, "tag content")),
      11 => format!("tgen< {} >", r(t, "generic argument")),
      12 => format!("[ int , ( {} // {} ) ]", r(t, "group entry"), r(t, "group entry")),
      _ => format!("{{ a: [ {{ b: tgen< [ {} ] > }} ] }} .and {}", r(t, "generic argument (nested)"), r(t, "control operand")),
    }
  }
}

pub fn gen_plan(t: &mut Tape) -> Plan {
  let n = 2 + t.below(7);
  let mut rules = vec![];
  for i in 0..n {
    let mut name = (*t.pick(POOL)).to_string();
    // kind follows the socket prefix; otherwise free
    let group = if name.starts_with("$$") { true } else if name.starts_with('$') { false } else { t.chance(1, 3) };
    if i == 0 && (group || name.starts_with('$')) {
      name = "a".into();
    }
    let group = if i == 0 { false } else { group };
    let incr = if name.starts_with('$') { t.chance(5, 6) } else { t.chance(1, 3) };
    let params: Vec<String> = if !name.starts_with('$') && t.chance(1, 6) {
      if t.flag() {
        vec!["t".into()]
      } else {
        vec!["t".into(), "u".into()]
      }
    } else {
      vec![]
    };
    let mut refs = vec![];
    let body = gen_body(t, group, &params, &mut refs);
    rules.push(PRule { name, group, incr, params, body, refs });
  }
  // helper generic rules that are always defined (outside the name pool)
  let mut text = String::new();
  let mut offsets = vec![];
  let sep_comment = t.chance(1, 4);
  for r in &rules {
    if sep_comment && t.chance(1, 3) {
      text.push_str("; a comment line between rules\n");
    }
    if t.chance(1, 5) {
      text.push('\n');
    }
    offsets.push(text.len());
    text.push_str(&r.name);
    if !r.params.is_empty() {
      text.push_str(&format!("<{}>", r.params.join(", ")));
    }
    text.push_str(match (r.group, r.incr) {
      (_, false) => " = ",
      (false, true) => " /= ",
      (true, true) => " //= ",
    });
    text.push_str(&r.body);
    text.push('\n');
  }
  text.push_str("tgen<p> = [ p ]\ngen<q> = ( g: q )\n");
  Plan { rules, text, offsets }
}

pub struct Expect {
  /// index of the rule at which a duplicate definition must be reported
  dup_at: Option<usize>,
  /// names that are referenced but defined nowhere
  undefined: Vec<String>,
}

pub fn expect(p: &Plan) -> Expect {
  let mut plain: Vec<&str> = vec![];
  let mut incr: Vec<&str> = vec![];
  let mut dup_at = None;
  for (i, r) in p.rules.iter().enumerate() {
    if r.incr {
      incr.push(&r.name);
    } else {
      if plain.contains(&r.name.as_str()) || incr.contains(&r.name.as_str()) {
        dup_at = Some(i);
        break;
      }
      plain.push(&r.name);
    }
  }
  let defined: Vec<&str> = p.rules.iter().map(|r| r.name.as_str()).chain(["tgen", "gen"]).collect();
  let mut undefined = vec![];
  for r in &p.rules {
    for (n, _) in &r.refs {
      let ok = defined.contains(&n.as_str()) || PRELUDE.contains(&n.as_str()) || r.params.contains(n) || n.starts_with('$');
      if !ok && !undefined.contains(n) {
        undefined.push(n.clone());
      }
    }
  }
  Expect { dup_at, undefined }
}

fn line_of(text: &str, off: usize) -> usize {
  1 + text[..off].matches('\n').count()
}

pub fn check_text(text: &str, dup: Option<(usize, &str)>, undefined: &[String]) -> Result<(), String> {
  // unchecked parse
  let r = std::panic::catch_unwind(|| cddl::pest_bridge::cddl_from_pest_str(text).map(|_| ()));
  let r = r.map_err(|_| format!("parser panicked at {}", vcore::calls::last_panic()))?;
  match (&dup, &r) {
    (None, Ok(())) => {}
    (None, Err(e)) => return Err(format!("a document without duplicate definitions is rejected: {}", e)),
    (Some((_, name)), Ok(())) => return Err(format!("a second definition of rule \"{}\" is accepted", name)),
    (Some((off, name)), Err(e)) => {
      let msg = e.to_string();
      let want = format!("rule \"{}\" is already defined", name);
      if !msg.contains(&want) {
        return Err(format!("duplicate of \"{}\": the error does not name the rule: {}", name, msg));
      }
      if let cddl::parser::Error::PARSER { position, .. } = e {
        if position.index != *off && position.range.0 != *off {
          return Err(format!("duplicate of \"{}\": reported position index {} range {:?}, the later definition starts at byte {}", name, position.index, position.range, off));
        }
        let want_line = line_of(text, *off);
        if position.line != want_line {
          return Err(format!("duplicate of \"{}\": reported line {}, the later definition is on line {}", name, position.line, want_line));
        }
      }
    }
  }
  // checked parse
  let c = std::panic::catch_unwind(|| cddl::ast::CDDL::from_slice(text.as_bytes()).map(|_| ()));
  let c = c.map_err(|_| format!("checked parser panicked at {}", vcore::calls::last_panic()))?;
  match (dup.is_some(), undefined.is_empty(), &c) {
    (true, _, Ok(())) => Err("CDDL::from_slice accepts a document with a duplicate definition".into()),
    (true, _, Err(_)) => Ok(()),
    (false, true, Ok(())) => Ok(()),
    (false, true, Err(e)) => Err(format!("CDDL::from_slice rejects a document whose references are all defined: {}", e)),
    (false, false, Ok(())) => Err(format!("CDDL::from_slice accepts a document with undefined reference(s) {:?}", undefined)),
    (false, false, Err(e)) => {
      if undefined.iter().any(|n| e.contains(&format!("missing definition for rule {}", n))) {
        Ok(())
      } else {
        Err(format!("undefined reference(s) {:?}: the error names none of them: {}", undefined, e))
      }
    }
  }
}

pub fn replay(_ctx: &Ctx, case: &J) -> Result<(), String> {
  let text = case["text"].as_str().ok_or("no text")?;
  let dup = match (case["dup_offset"].as_u64(), case["dup_name"].as_str()) {
    (Some(o), Some(n)) => Some((o as usize, n)),
    _ => None,
  };
  let undefined: Vec<String> = case["undefined"].as_array().map(|a| a.iter().filter_map(|x| x.as_str().map(|s| s.to_string())).collect()).unwrap_or_default();
  check_text(text, dup, &undefined)
}

pub fn run(ctx: &Ctx) {
  ctx.set_rule(
    "cases: 2-8 rules over a pool of 7 names (incl. $socket / $$socket names) so that names collide, each with a kind, an \
     assignment operator (=, /=, //=), optional generic parameters and a body in which reference slots (type, array entry, \
     member value, arrow key, group entry, type choice, control operand, range bound, ~, &, tag content, generic argument \
     also nested) are filled from {pool name, undefined name, prelude name, parameter in scope, parameter of another rule, \
     socket}. Oracle (computed from the plan): cddl_from_pest_str fails iff a name gets a second plain '=' or a plain '=' \
     after an increment, the message names that rule and position/line point at the later definition; CDDL::from_slice \
     additionally fails iff a referenced name is neither defined, prelude, a parameter of the enclosing rule nor a socket, \
     and the message names such a name. Non-trivial: >= 3 rules and a repeated name, an undefined reference, an \
     out-of-scope parameter or a reference in a generic argument / control operand; distinct texts.",
  );
  ctx.assume("the standard prelude is the name list of RFC 8610 Appendix D (transcribed in the harness)");
  let n = ctx.tier.pick(60_000u64, 1_500_000u64);
  search(ctx, "names", n, 200, |t: &mut Tape, st: &mut Stats| {
    let p = gen_plan(t);
    let e = expect(&p);
    st.eval();
    let dup = e.dup_at.map(|i| (p.offsets[i], p.rules[i].name.as_str()));
    st.count(match (&dup, e.undefined.is_empty()) {
      (Some(_), _) => "expect:duplicate",
      (None, false) => "expect:undefined_reference",
      _ => "expect:accepted_by_both",
    });
    match check_text(&p.text, dup, &e.undefined) {
      Ok(()) => {
        let repeated = p.rules.iter().enumerate().any(|(i, r)| p.rules[..i].iter().any(|q| q.name == r.name));
        let deep = p.rules.iter().any(|r| r.refs.iter().any(|(_, pos)| pos.contains("generic") || pos.contains("control")));
        let oos = p.rules.iter().any(|r| r.refs.iter().any(|(n, _)| (n == "t" || n == "u") && !r.params.contains(n)));
        if p.rules.len() >= 3 && (repeated || !e.undefined.is_empty() || deep || oos) && st.nontrivial(&p.text) {
          st.sample(&p.text, || json!({"text": p.text, "duplicate_at_rule": e.dup_at, "undefined": e.undefined}));
        }
        Ok(())
      }
      Err(m) => Err(Fail::new(
        format!("{} ; document {:?}", m, p.text),
        json!({"check": "names", "text": p.text, "dup_offset": dup.map(|d| d.0), "dup_name": dup.map(|d| d.1), "undefined": e.undefined}),
      )),
    }
  });
}
