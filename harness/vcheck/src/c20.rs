//! C20 — ParentVisitor returns the syntactic parent of every AST node.
use cddl::ast::parent::{Parent, ParentVisitor};
use cddl::ast::*;
use vcore::calls;
use vcore::cmodel::{render_with, TapeTrivia};
use vcore::parents::{self, kind, same};
use vcore::syngen::{SynGen, SynOpts};
use vcore::{json, search, sweep, Ctx, Fail, Stats, Tape, J};

pub struct Obs {
  pub pairs: usize,
  pub repeated_identifiers: usize,
  pub repeated_type2: usize,
}

type Broken = (String, String);

fn describe(n: &CDDLType) -> String {
  let s = match n {
    CDDLType::CDDL(_) => "<document>".to_string(),
    CDDLType::Rule(x) => x.to_string(),
    CDDLType::TypeRule(x) => x.to_string(),
    CDDLType::GroupRule(x) => x.to_string(),
    CDDLType::Group(x) => x.to_string(),
    CDDLType::GroupChoice(x) => x.to_string(),
    CDDLType::GenericParams(x) => x.to_string(),
    CDDLType::GenericArgs(x) => x.to_string(),
    CDDLType::GroupEntry(x) => x.to_string(),
    CDDLType::Identifier(x) => format!("{} @{:?}", x, x.span),
    CDDLType::Type(x) => format!("{} @{:?}", x, x.span),
    CDDLType::Type1(x) => format!("{} @{:?}", x, x.span),
    CDDLType::Type2(x) => x.to_string(),
    CDDLType::ValueMemberKeyEntry(x) => x.to_string(),
    CDDLType::TypeGroupnameEntry(x) => x.to_string(),
    CDDLType::MemberKey(x) => x.to_string(),
    other => format!("{:?}", other).chars().take(80).collect(),
  };
  format!("{}({})", kind(n), s.replace('\n', " ").replace('\t', " ").chars().take(70).collect::<String>())
}

/// All laws on one parsed document; the first broken law per (law, child kind, parent kind) signature.
fn laws<'a>(c: &'a CDDL<'a>) -> Result<Obs, Vec<Broken>> {
  let mut broken: Vec<Broken> = vec![];
  let pv = match ParentVisitor::new(c) {
    Ok(p) => p,
    Err(e) => return Err(vec![("build_failed".into(), format!("ParentVisitor::new failed: {}", e))]),
  };
  if let Some(p) = CDDLType::CDDL(c).parent(&pv) {
    broken.push(("root_has_parent".into(), format!("the document root has parent {}", describe(p))));
  }
  if Parent::<()>::parent(c, &pv).is_some() {
    broken.push(("root_has_parent".into(), "CDDL::parent returned Some".into()));
  }
  let ps = parents::pairs(c);
  let mut seen = std::collections::BTreeSet::new();
  for p in &ps {
    let got = p.child.parent(&pv);
    let sig = match got {
      None => Some(format!("no_parent:{}<{}", kind(&p.child), kind(&p.parent))),
      Some(g) if !same(g, &p.parent) => Some(format!("wrong_parent:{}<{}", kind(&p.child), kind(&p.parent))),
      _ => None,
    };
    if let Some(sig) = sig {
      if seen.insert(sig.clone()) {
        broken.push((
          sig,
          format!(
            "node {} at {} is contained in {} but the parent query returned {}",
            describe(&p.child),
            p.path,
            describe(&p.parent),
            got.map(|g| describe(g)).unwrap_or_else(|| "None".into())
          ),
        ));
      }
    }
  }
  // the typed interface (trait `Parent`) on the pairs whose parent type is determined by the child type
  for p in &ps {
    let ok = match (&p.child, &p.parent) {
      (CDDLType::Rule(ch), CDDLType::CDDL(pa)) => Parent::<CDDL>::parent(*ch, &pv).map(|g| std::ptr::eq(g, *pa)),
      (CDDLType::TypeRule(ch), CDDLType::Rule(pa)) => Parent::<Rule>::parent(*ch, &pv).map(|g| std::ptr::eq(g, *pa)),
      (CDDLType::GroupRule(ch), CDDLType::Rule(pa)) => Parent::<Rule>::parent(*ch, &pv).map(|g| std::ptr::eq(g, *pa)),
      (CDDLType::TypeChoice(ch), CDDLType::Type(pa)) => Parent::<Type>::parent(*ch, &pv).map(|g| std::ptr::eq(g, *pa)),
      (CDDLType::GroupChoice(ch), CDDLType::Group(pa)) => Parent::<Group>::parent(*ch, &pv).map(|g| std::ptr::eq(g, *pa)),
      (CDDLType::GroupEntry(ch), CDDLType::GroupChoice(pa)) => Parent::<GroupChoice>::parent(*ch, &pv).map(|g| std::ptr::eq(g, *pa)),
      (CDDLType::GenericArg(ch), CDDLType::GenericArgs(pa)) => Parent::<GenericArgs>::parent(*ch, &pv).map(|g| std::ptr::eq(g, *pa)),
      (CDDLType::GenericParam(ch), CDDLType::GenericParams(pa)) => Parent::<GenericParams>::parent(*ch, &pv).map(|g| std::ptr::eq(g, *pa)),
      (CDDLType::Operator(ch), CDDLType::Type1(pa)) => Parent::<Type1>::parent(*ch, &pv).map(|g| std::ptr::eq(g, *pa)),
      (CDDLType::MemberKey(ch), CDDLType::ValueMemberKeyEntry(pa)) => Parent::<ValueMemberKeyEntry>::parent(*ch, &pv).map(|g| std::ptr::eq(g, *pa)),
      _ => continue,
    };
    if ok != Some(true) {
      let sig = format!("typed_{}:{}<{}", if ok.is_none() { "no_parent" } else { "wrong_parent" }, kind(&p.child), kind(&p.parent));
      if seen.insert(sig.clone()) {
        broken.push((sig, format!("Parent::parent of {} at {} did not return its container {}", describe(&p.child), p.path, describe(&p.parent))));
      }
    }
  }
  if !broken.is_empty() {
    return Err(broken);
  }
  // strata
  let mut ids = std::collections::BTreeMap::new();
  let mut t2s = std::collections::BTreeMap::new();
  for p in &ps {
    match &p.child {
      CDDLType::Identifier(i) => *ids.entry(i.to_string()).or_insert(0usize) += 1,
      CDDLType::Type2(t) => *t2s.entry(t.to_string()).or_insert(0usize) += 1,
      _ => {}
    }
  }
  Ok(Obs { pairs: ps.len(), repeated_identifiers: ids.values().filter(|n| **n > 1).count(), repeated_type2: t2s.values().filter(|n| **n > 1).count() })
}

pub enum Out {
  Rejected,
  Panic(String),
  Held(Obs),
  Broken(Vec<Broken>),
}

pub fn observe(text: &str) -> Out {
  match calls::with_parsed(text, |c| laws(c)) {
    Err(Ok(_)) => Out::Rejected,
    Err(Err(p)) => Out::Panic(p),
    Ok(Ok(o)) => Out::Held(o),
    Ok(Err(b)) => Out::Broken(b),
  }
}

fn excluded(ctx: &Ctx, sig: &str, st: &mut Stats) -> bool {
  for name in ctx.exclusions() {
    if let Some(p) = name.strip_prefix("c20:") {
      if sig.starts_with(p) {
        st.exclude(&name);
        return true;
      }
    }
  }
  false
}

static SURVEY: std::sync::Mutex<Option<std::collections::BTreeMap<String, (usize, String, String)>>> = std::sync::Mutex::new(None);

fn eval(ctx: &Ctx, check: &str, text: &str, st: &mut Stats) -> Result<(), Fail> {
  st.eval();
  match observe(text) {
    Out::Rejected => {
      st.count("rejected_by_parser(out of domain)");
      Ok(())
    }
    Out::Panic(p) => {
      st.crash(&calls::panic_site(&p));
      Err(Fail::new(format!("[panic] building or querying the parent index panicked at {} ; text={:?}", p, text), json!({"check": check, "text": text, "law": "panic"})))
    }
    Out::Held(o) => {
      st.count("held");
      if o.repeated_identifiers > 0 {
        st.count("repeated_identifier");
      }
      if o.repeated_type2 > 0 {
        st.count("repeated_type2_text");
      }
      if (o.repeated_identifiers > 0 || o.repeated_type2 > 0) && st.nontrivial(text) {
        st.sample(text, || json!({"text": text, "pairs": o.pairs, "repeated_identifiers": o.repeated_identifiers, "repeated_type2": o.repeated_type2}));
      }
      Ok(())
    }
    Out::Broken(b) => {
      if std::env::var("VERIF_SURVEY").is_ok() {
        let mut g = SURVEY.lock().unwrap();
        let m = g.get_or_insert_with(Default::default);
        for (sig, msg) in &b {
          let e = m.entry(sig.clone()).or_insert((0, msg.clone(), text.to_string()));
          e.0 += 1;
          if text.len() < e.2.len() {
            e.1 = msg.clone();
            e.2 = text.to_string();
          }
        }
        return Ok(());
      }
      for (sig, msg) in &b {
        if excluded(ctx, sig, st) {
          continue;
        }
        return Err(Fail::new(format!("[{}] {} ; text={:?}", sig, msg, text), json!({"check": check, "text": text, "law": sig})));
      }
      Ok(())
    }
  }
}

pub fn replay(_ctx: &Ctx, case: &J) -> Result<(), String> {
  let text = case["text"].as_str().ok_or("no text")?;
  let only = case["law"].as_str();
  match observe(text) {
    Out::Rejected => Err("the witness text is no longer accepted by the parser".into()),
    Out::Panic(p) => Err(format!("panic at {}", p)),
    Out::Held(_) => Ok(()),
    Out::Broken(b) => match b.iter().find(|(s, _)| only.map(|o| s == o).unwrap_or(true)) {
      Some((sig, msg)) => Err(format!("[{}] {}", sig, msg)),
      None => Ok(()),
    },
  }
}

fn fixtures() -> Vec<(String, String)> {
  let mut out = vec![];
  let mut stack = vec![std::path::PathBuf::from("/repo/tests/fixtures"), std::path::PathBuf::from("/repo/www")];
  while let Some(d) = stack.pop() {
    if let Ok(rd) = std::fs::read_dir(&d) {
      let mut es: Vec<_> = rd.filter_map(|e| e.ok()).map(|e| e.path()).collect();
      es.sort();
      for p in es {
        if p.is_dir() {
          if p.file_name().map(|n| n == "node_modules").unwrap_or(false) {
            continue;
          }
          stack.push(p);
        } else if p.extension().map(|e| e == "cddl").unwrap_or(false) {
          if let Ok(t) = std::fs::read_to_string(&p) {
            out.push((p.display().to_string(), t));
          }
        }
      }
    }
  }
  out.sort();
  out
}

pub fn run(ctx: &Ctx) {
  ctx.set_rule(
    "cases: accepted documents rendered from random grammar derivations; in sub-check `repeats` names and literals \
     come from pools of three so that identical sub-expressions (same identifier, same literal, same type text) \
     recur within and across rules. Oracle: an own walk of the AST lists every (child, container) pair for the 24 \
     reference-holding node kinds; for each, CDDLType::parent must return the container itself (same variant, same \
     address), the typed Parent::parent interface is exercised on the pairs whose parent type is determined by the \
     child type, the root must have no parent, and ParentVisitor::new must succeed. Non-trivial: the document \
     contains at least two identifier nodes with the same text or two type2 nodes with the same text; distinct by \
     source text.",
  );
  ctx.assume("the by-value kind Value (a literal without a span) has no node identity; its queries are not asserted. Occur values carry their span and are asserted");
  let n = ctx.tier.pick(300_000, 6_000_000);
  let mut tiny = SynOpts::default();
  tiny.tiny_pools = true;
  let wide = SynOpts::default();
  for (name, opts) in [("repeats", &tiny), ("wide", &wide)] {
    search(ctx, name, n, 240, |t: &mut Tape, st: &mut Stats| {
      let s = SynGen::new(t, opts).schema();
      let mut tr = TapeTrivia::new(t, false);
      let text = render_with(&s, &mut tr);
      eval(ctx, name, &text, st)
    });
  }
  let fx = fixtures();
  sweep(ctx, "fixtures", &fx, |(_, text), st| eval(ctx, "fixtures", text, st));
  if let Some(m) = SURVEY.lock().unwrap().as_ref() {
    let mut s = String::new();
    for (k, (n, msg, text)) in m {
      s.push_str(&format!("{:7} {}\n        {}\n        text={:?}\n", n, k, msg, text));
    }
    let _ = std::fs::write("/tmp/survey_c20.txt", s);
  }
}
