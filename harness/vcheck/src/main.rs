//! `vcheck <Cxx> [quick|thorough]` runs the check of one property;
//! `vcheck replay <file>` re-executes one saved case without going through proptest.
use vcore::{Ctx, J};

mod c03;
mod c01;
mod c02;
mod c04;
mod c05;
mod c06;
mod c07;
mod c08;
mod c09;
mod c10;
mod semcheck;
mod smallscope;
mod c11;
mod c12;
mod c13;
mod c14;
mod c15;
mod c16;
mod c17;
mod c18;
mod c19;
mod c20;

type ReplayFn = fn(&Ctx, &J) -> Result<(), String>;
type RunFn = fn(&Ctx);

fn table(prop: &str) -> Option<(RunFn, ReplayFn)> {
  Some(match prop {
    "C03" => (c03::run, c03::replay),
    "C01" => (c01::run, c01::replay),
    "C02" => (c02::run, c02::replay),
    "C04" => (c04::run, c04::replay),
    "C05" => (c05::run, c05::replay),
    "C06" => (c06::run, c06::replay),
    "C07" => (c07::run, c07::replay),
    "C08" => (c08::run, c08::replay),
    "C09" => (c09::run, c09::replay),
    "C10" => (c10::run, c10::replay),
    "C11" => (c11::run, c11::replay),
    "C12" => (c12::run, c12::replay),
    "C13" => (c13::run, c13::replay),
    "C14" => (c14::run, c14::replay),
    "C15" => (c15::run, c15::replay),
    "C16" => (c16::run, c16::replay),
    "C17" => (c17::run, c17::replay),
    "C18" => (c18::run, c18::replay),
    "C19" => (c19::run, c19::replay),
    "C20" => (c20::run, c20::replay),
    _ => return None,
  })
}

fn main() {
  let args: Vec<String> = std::env::args().collect();
  if args.len() < 2 {
    eprintln!("usage: vcheck <Cxx> [quick|thorough] | vcheck replay <file>");
    std::process::exit(2);
  }
  if args[1] == "worker" {
    vcore::calls::worker_main();
    return;
  }
  if args[1] == "probe" {
    probe(&args[2..]);
    return;
  }
  if args[1] == "replay" {
    let txt = std::fs::read_to_string(&args[2]).expect("read replay file");
    let case: J = serde_json::from_str(&txt).expect("replay file is JSON");
    let prop = case["property"].as_str().expect("property").to_string();
    let (_, rp) = table(&prop).expect("unknown property");
    let ctx = Ctx::new(&prop, Some("quick"));
    match rp(&ctx, &case) {
      Ok(()) => {
        ctx.say(&format!("replay {}: property held", args[2]));
        std::process::exit(0)
      }
      Err(e) => {
        ctx.say(&format!("VIOLATION property={} replay={}", prop, args[2]));
        ctx.say(&format!("  {}", e));
        std::process::exit(1)
      }
    }
  }
  let prop = args[1].clone();
  let (run, rp) = match table(&prop) {
    Some(x) => x,
    None => {
      eprintln!("unknown property {}", prop);
      std::process::exit(2);
    }
  };
  let ctx = Ctx::new(&prop, args.get(2).map(|s| s.as_str()));
  ctx.replay_tier(&|c| rp(&ctx, c));
  run(&ctx);
  let code = ctx.finish();
  std::process::exit(code);
}

/// Triage aid: `vcheck probe parse <text|@file>`, `probe json <schema> <json>`,
/// `probe cbor <schema> <hex>`.
fn probe(a: &[String]) {
  let arg = |i: usize| -> String {
    let s = a.get(i).cloned().unwrap_or_default();
    if let Some(f) = s.strip_prefix('@') {
      std::fs::read_to_string(f).expect("read")
    } else {
      s
    }
  };
  vcore::calls::install_panic_hook();
  match a[0].as_str() {
    "parse" => {
      let t = arg(1);
      match vcore::calls::with_parsed(&t, |c| (vcore::skel::skel(c), c.to_string())) {
        Ok((sk, f)) => {
          println!("ACCEPTED\nskel:\n{}formatted:\n{}", sk, f);
          match vcore::calls::with_parsed(&f, |c| vcore::skel::skel(c)) {
            Ok(sk2) => println!("reparse: ok, same skel: {}", sk2 == sk),
            Err(e) => println!("reparse: {:?}", e),
          }
        }
        Err(e) => println!("REJECTED {:?}", e),
      }
    }
    "comments" => {
      let t = arg(1);
      match vcore::calls::with_parsed(&t, |c| (vcore::comments::collect(c).into_iter().map(|f| format!("{} = {:?}", f.slot, f.text)).collect::<Vec<_>>(), c.to_string())) {
        Ok((l, f)) => println!("slots: {:?}\nformatted:\n{}", l, f),
        Err(e) => println!("REJECTED {:?}", e),
      }
    }
    "derivable" => {
      let t = arg(1);
      println!("derivable: {} ; parser accepts: {:?}", c03::derivable(&t), vcore::calls::parses(&t));
    }
    "json" => println!("{}", vcore::calls::validate_json(&arg(1), &arg(2)).brief()),
    "cbor" => {
      let h = arg(2);
      let bytes: Vec<u8> =
        (0..h.len() / 2).map(|i| u8::from_str_radix(&h[2 * i..2 * i + 2], 16).unwrap()).collect();
      println!("{}", vcore::calls::validate_cbor(&arg(1), &bytes).brief())
    }
    _ => eprintln!("unknown probe"),
  }
}
