//! C06 — formatting a parsed document preserves its meaning and is idempotent.
use vcore::calls;
use vcore::cmodel::{render_with, Pos, TapeTrivia, ALL_POS};
use vcore::skel::skel;
use vcore::syngen::{SynGen, SynOpts};
use vcore::{json, search, sweep, Ctx, Fail, Stats, Tape, J};

pub struct Outcome {
  pub skel: String,
  pub formatted: String,
}

/// The round-trip oracle on one accepted text.  Err(msg) = violation.
/// Ok(None) = the text is outside the domain (not accepted by the parser).
pub fn roundtrip(text: &str) -> Result<Option<Outcome>, String> {
  roundtrip_opt(text, true)
}

/// `idem` = also assert that a second formatting pass reproduces the first text
pub fn roundtrip_opt(text: &str, idem: bool) -> Result<Option<Outcome>, String> {
  let first = calls::with_parsed(text, |c| {
    let sk = skel(c);
    let f = std::panic::catch_unwind(std::panic::AssertUnwindSafe(|| c.to_string()));
    (sk, f)
  });
  let (sk1, f1) = match first {
    Ok(x) => x,
    Err(_) => return Ok(None),
  };
  let f1 = match f1 {
    Ok(s) => s,
    Err(_) => return Err(format!("formatting the AST panicked at {}", calls::last_panic())),
  };
  let second = calls::with_parsed(&f1, |c| {
    let sk = skel(c);
    let f = std::panic::catch_unwind(std::panic::AssertUnwindSafe(|| c.to_string()));
    (sk, f)
  });
  let (sk2, f2) = match second {
    Ok(x) => x,
    Err(Ok(e)) => {
      return Err(format!("formatted text is rejected by the parser: {} ; formatted={:?}", first_line(&e), f1))
    }
    Err(Err(p)) => return Err(format!("parsing the formatted text panicked at {} ; formatted={:?}", p, f1)),
  };
  if sk1 != sk2 {
    return Err(format!(
      "AST changed by formatting: before={} after={} formatted={:?}",
      first_diff(&sk1, &sk2).0,
      first_diff(&sk1, &sk2).1,
      f1
    ));
  }
  let f2 = match f2 {
    Ok(s) => s,
    Err(_) => return Err("formatting the re-parsed AST panicked".into()),
  };
  if idem && f1 != f2 {
    return Err(format!("formatting is not idempotent: first={:?} second={:?}", f1, f2));
  }
  Ok(Some(Outcome { skel: sk1, formatted: f1 }))
}

fn first_line(s: &str) -> String {
  s.lines().next().unwrap_or("").chars().take(200).collect()
}

/// the differing rule lines of two skeletons
fn first_diff(a: &str, b: &str) -> (String, String) {
  let la: Vec<&str> = a.lines().collect();
  let lb: Vec<&str> = b.lines().collect();
  for i in 0..la.len().max(lb.len()) {
    let x = la.get(i).copied().unwrap_or("<missing rule>");
    let y = lb.get(i).copied().unwrap_or("<missing rule>");
    if x != y {
      return (x.to_string(), y.to_string());
    }
  }
  (String::new(), String::new())
}

/// constructs of interest present in a skeleton (used for the non-trivial rule and strata)
pub fn features(sk: &str, text: &str) -> Vec<&'static str> {
  let mut f = vec![];
  let mut depth = 0usize;
  let mut maxd = 0usize;
  let b = sk.as_bytes();
  let mut i = 0;
  // nesting of containers
  let mut stack: Vec<bool> = vec![];
  while i < b.len() {
    if b[i] == b'"' {
      // skip quoted text (Debug-escaped)
      i += 1;
      while i < b.len() && b[i] != b'"' {
        if b[i] == b'\\' {
          i += 1;
        }
        i += 1;
      }
    } else if b[i] == b'(' {
      let cont = sk[i..].starts_with("(map ") || sk[i..].starts_with("(array ");
      stack.push(cont);
      if cont {
        depth += 1;
        maxd = maxd.max(depth);
      }
    } else if b[i] == b')' {
      if let Some(true) = stack.pop() {
        depth -= 1;
      }
    }
    i += 1;
  }
  if maxd >= 2 {
    f.push("nesting>=2");
  }
  if sk.contains("(float ") {
    f.push("float");
  }
  if sk.contains("(tag ") || sk.contains("(major ") {
    f.push("tag");
  }
  if sk.contains("(unwrap ") {
    f.push("unwrap");
  }
  if sk.contains("(key^=> ") {
    f.push("cut");
  }
  if sk.contains('<') {
    f.push("generic");
  }
  if sk.contains("\\\"") || sk.contains("\\\\") || sk.contains("\\n") || sk.contains("\\t") || sk.contains("\\u{") {
    f.push("escape");
  }
  if sk.contains("(bytes") {
    f.push("bytes");
  }
  if sk.contains("(op ") {
    f.push("operator");
  }
  if sk.contains("(GC") && sk.matches(" (GC").count() > sk.matches("(G ").count() {
    f.push("group-choice");
  }
  if text.contains(';') {
    f.push("comment?");
  }
  f
}

struct Excl {
  name: &'static str,
  hit: fn(&str, &str) -> bool,
}

/// Exclusions for open findings: narrow syntactic conditions on (skeleton, source).
const EXCLUSIONS: &[Excl] = &[];

/// has the source a comment (a ';' outside text and byte string literals)?
pub fn has_comment(text: &str) -> bool {
  let mut in_text = false;
  let mut in_bytes = false;
  let mut esc = false;
  for c in text.chars() {
    if esc {
      esc = false;
      continue;
    }
    match c {
      '\\' if in_text || in_bytes => esc = true,
      '"' if !in_bytes => in_text = !in_text,
      '\'' if !in_text => in_bytes = !in_bytes,
      ';' if !in_text && !in_bytes => return true,
      _ => {}
    }
  }
  false
}

fn excluded(ctx: &Ctx, sk: &str, text: &str, st: &mut Stats) -> bool {
  let mut any = false;
  for e in EXCLUSIONS {
    if ctx.excl(e.name) && (e.hit)(sk, text) {
      st.exclude(e.name);
      any = true;
    }
  }
  any
}

fn eval_text(ctx: &Ctx, check: &str, text: &str, st: &mut Stats) -> Result<(), Fail> {
  st.eval();
  // classify first (needs a parse), so that excluded shapes are never evaluated
  let sk = match calls::with_parsed(text, |c| skel(c)) {
    Ok(s) => s,
    Err(Ok(_)) => {
      st.count("rejected_by_parser(out of domain)");
      return Ok(());
    }
    Err(Err(_)) => {
      st.crash("parse_panic");
      return Ok(());
    }
  };
  if excluded(ctx, &sk, text, st) {
    return Ok(());
  }
  let feats = features(&sk, text);
  for f in &feats {
    st.count(f);
  }
  // open finding: layout of re-attached comments is not stable under a second pass
  let mut idem = true;
  if ctx.excl("fmt_idem_with_comments") && has_comment(text) {
    st.exclude("fmt_idem_with_comments");
    idem = false;
  }
  match roundtrip_opt(text, idem) {
    Ok(Some(o)) => {
      st.count("roundtrip_ok");
      if !feats.is_empty() && st.nontrivial(text) {
        st.sample(text, || json!({"text": text, "formatted": o.formatted, "features": feats}));
      }
      Ok(())
    }
    Ok(None) => Ok(()),
    Err(msg) => Err(Fail::new(msg, json!({"check": check, "text": text}))),
  }
}

pub fn replay(_ctx: &Ctx, case: &J) -> Result<(), String> {
  let text = case["text"].as_str().ok_or("replay case lacks text")?;
  match roundtrip(text) {
    Ok(_) => Ok(()),
    Err(e) => Err(e),
  }
}

fn fixtures() -> Vec<(String, String)> {
  let mut out = vec![];
  let mut stack = vec![std::path::PathBuf::from("/repo/tests/fixtures"), std::path::PathBuf::from("/repo/www")];
  while let Some(d) = stack.pop() {
    if let Ok(rd) = std::fs::read_dir(&d) {
      let mut es: Vec<_> = rd.filter_map(|e| e.ok()).map(|e| e.path()).collect();
      es.sort();
      for p in es {
        if p.is_dir() {
          if p.file_name().map(|n| n == "node_modules").unwrap_or(false) {
            continue;
          }
          stack.push(p);
        } else if p.extension().map(|e| e == "cddl").unwrap_or(false) {
          if let Ok(t) = std::fs::read_to_string(&p) {
            out.push((p.display().to_string(), t));
          }
        }
      }
    }
  }
  out.sort();
  out
}

pub fn run(ctx: &Ctx) {
  ctx.set_rule(
    "cases: CDDL texts rendered from random derivations of the grammar (own model and printer; random blanks, \
     line breaks, optional commas and - in the *_comments sub-check - comments at every S position) plus the \
     repository's .cddl fixtures; a case is in the domain when the parser accepts it. Oracle: parse -> Display -> \
     parse must succeed, skeletons (all constructs, markers, bounds, literal kinds and values; no spans/comments) \
     must be equal, and a second Display must reproduce the first byte for byte. Non-trivial: the document \
     contains at least one of {literal needing escapes, float, bytes, container nesting >= 2, tag/major type, \
     unwrap, cut, generic arguments, operator, group choice, comment}; distinct = distinct source text.",
  );
  ctx.assume("skeleton equality ignores spans, comment fields and the optional-comma flag (layout, not meaning)");
  let n = ctx.tier.pick(300_000, 6_000_000);

  let opts = SynOpts::default();
  search(ctx, "roundtrip_syn", n, 220, |t: &mut Tape, st: &mut Stats| {
    let s = SynGen::new(t, &opts).schema();
    let mut tr = TapeTrivia::new(t, false);
    let text = render_with(&s, &mut tr);
    eval_text(ctx, "roundtrip_syn", &text, st)
  });

  // comments: positions listed by open findings get no comment (counted as excluded)
  let banned: Vec<Pos> = ALL_POS.iter().copied().filter(|p| ctx.excl(&format!("comment_at_{:?}", p))).collect();
  let only: Option<Pos> = std::env::var("VERIF_COMMENT_POS")
    .ok()
    .and_then(|n| ALL_POS.iter().copied().find(|p| format!("{:?}", p) == n));
  search(ctx, "roundtrip_comments", n / 2, 260, |t: &mut Tape, st: &mut Stats| {
    let s = SynGen::new(t, &opts).schema();
    let mut tr = TapeTrivia::new(t, true);
    tr.crlf = true;
    tr.no_comment_at = banned.clone();
    tr.only_at = only;
    let mut text = render_with(&s, &mut tr);
    for p in &tr.suppressed {
      st.exclude(&format!("comment_at_{:?}", p));
    }
    for p in &tr.placed {
      st.count(&format!("comment@{:?}", p));
    }
    if t.flag() {
      text.push('\n');
    }
    eval_text(ctx, "roundtrip_comments", &text, st)
  });

  let fx = fixtures();
  sweep(ctx, "fixtures", &fx, |(_, text), st| eval_text(ctx, "fixtures", text, st));
}
