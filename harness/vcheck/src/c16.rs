//! C16 — comments are recognised only as comments and survive formatting intact.
use std::collections::BTreeMap;
use vcore::calls;
use vcore::cmodel::{render_with, Pos, TapeTrivia, ALL_POS};
use vcore::comments;
use vcore::skel::skel;
use vcore::syngen::{SynGen, SynOpts};
use vcore::{json, search, sweep, Ctx, Fail, Stats, Tape, J};

fn multiset(v: impl IntoIterator<Item = String>) -> BTreeMap<String, usize> {
  let mut m = BTreeMap::new();
  for s in v {
    *m.entry(s).or_insert(0) += 1;
  }
  m
}

pub struct Obs {
  pub attached: usize,
  pub in_source: usize,
  pub formatted: String,
}

/// All laws on one text. Ok(None): not accepted by the parser (outside the domain). Err((law, message)).
pub fn laws(text: &str) -> Result<Option<Obs>, (String, String)> {
  laws_opt(text, true)
}

/// `format` = also apply the laws about the formatted text
pub fn laws_opt(text: &str, format: bool) -> Result<Option<Obs>, (String, String)> {
  let first = calls::with_parsed(text, |c| {
    let sk = skel(c);
    let found = comments::collect(c);
    let f = std::panic::catch_unwind(std::panic::AssertUnwindSafe(|| c.to_string()));
    (sk, found, f)
  });
  let (sk1, found, f1) = match first {
    Ok(x) => x,
    Err(Ok(_)) => return Ok(None),
    Err(Err(p)) => return Err(("parse_panic".into(), format!("parsing panicked at {}", p))),
  };
  let src = multiset(comments::scan(text));
  // 1. only real comments, unchanged, each attached at most once
  let mut seen: BTreeMap<String, usize> = BTreeMap::new();
  for f in &found {
    let n = seen.entry(f.text.clone()).or_insert(0);
    *n += 1;
    match src.get(&f.text) {
      None => {
        return Err((
          format!("not_a_source_comment:{}", f.slot),
          format!("slot {} holds {:?}, which is not the text of any comment of the source (comments of the source: {:?})", f.slot, f.text, src.keys().collect::<Vec<_>>()),
        ))
      }
      Some(k) if *n > *k => {
        return Err((format!("attached_twice:{}", f.slot), format!("comment {:?} occurs {} time(s) in the source but is attached {} times (last: slot {})", f.text, k, n, f.slot)))
      }
      _ => {}
    }
  }
  if !format {
    return Ok(Some(Obs { attached: found.len(), in_source: src.values().sum(), formatted: String::new() }));
  }
  let f1 = match f1 {
    Ok(s) => s,
    Err(_) => return Err(("format_panic".into(), format!("formatting panicked at {}", calls::last_panic()))),
  };
  // 2. formatting emits every attached comment exactly once, as a comment, and no comment of the output contains
  //    anything but the text of a source comment.  (Comments that are not attached but sit inside a region the
  //    crate stores as raw text - the type inside `#6.<...>` - reappear verbatim; the statement allows that.)
  let out = multiset(comments::scan(&f1));
  for (text, n) in &out {
    if !src.contains_key(text) {
      return Err(("comment_absorbs_code_or_changes_text".into(), format!("the formatted text has the comment {:?}, which is not the text of a source comment {:?} ; formatted={:?}", text, src.keys().collect::<Vec<_>>(), f1)));
    }
    let att = seen.get(text).copied().unwrap_or(0);
    if att > 0 && *n > att && *n > src[text] {
      return Err(("comment_duplicated_by_format".into(), format!("comment {:?}: attached {} time(s), {} in the source, emitted {} times ; formatted={:?}", text, att, src[text], n, f1)));
    }
  }
  for (text, att) in &seen {
    let n = out.get(text).copied().unwrap_or(0);
    if n < *att {
      return Err(("comment_lost_by_format".into(), format!("comment {:?} is attached {} time(s) but emitted {} time(s) ; formatted={:?}", text, att, n, f1)));
    }
    if n > *att && n > src[text] {
      return Err(("comment_duplicated_by_format".into(), format!("comment {:?}: attached {} time(s), emitted {} times ; formatted={:?}", text, att, n, f1)));
    }
  }
  // 3. the formatted text parses to the same rules, choices and entries
  match calls::with_parsed(&f1, |c| skel(c)) {
    Ok(sk2) => {
      if sk1 != sk2 {
        let (a, b) = first_diff(&sk1, &sk2);
        return Err(("format_changes_ast".into(), format!("formatting changed the AST: before={} after={} formatted={:?}", a, b, f1)));
      }
    }
    Err(Ok(e)) => return Err(("formatted_rejected".into(), format!("formatted text is rejected: {} ; formatted={:?}", e.lines().next().unwrap_or(""), f1))),
    Err(Err(p)) => return Err(("parse_panic".into(), format!("parsing the formatted text panicked at {}", p))),
  }
  Ok(Some(Obs { attached: found.len(), in_source: src.values().sum(), formatted: f1 }))
}

fn first_diff(a: &str, b: &str) -> (String, String) {
  let la: Vec<&str> = a.lines().collect();
  let lb: Vec<&str> = b.lines().collect();
  for i in 0..la.len().max(lb.len()) {
    let x = la.get(i).copied().unwrap_or("<missing rule>");
    let y = lb.get(i).copied().unwrap_or("<missing rule>");
    if x != y {
      return (x.to_string(), y.to_string());
    }
  }
  (String::new(), String::new())
}

pub fn replay(_ctx: &Ctx, case: &J) -> Result<(), String> {
  let text = case["text"].as_str().ok_or("replay case lacks text")?;
  match laws_opt(text, case["format"].as_bool().unwrap_or(true)) {
    Ok(_) => Ok(()),
    Err((law, msg)) => Err(format!("[{}] {}", law, msg)),
  }
}

fn eval(ctx: &Ctx, check: &str, text: &str, placed: &[Pos], format: bool, st: &mut Stats) -> Result<(), Fail> {
  let _ = ctx;
  st.eval();
  match laws_opt(text, format) {
    Ok(None) => {
      st.count("rejected_by_parser(out of domain)");
      Ok(())
    }
    Ok(Some(o)) => {
      st.count(if o.attached == o.in_source { "all_comments_attached" } else { "some_comments_not_attached(allowed)" });
      if o.in_source > 0 && st.nontrivial(text) {
        st.sample(text, || json!({"text": text, "comments_in_source": o.in_source, "attached": o.attached, "formatted": o.formatted, "positions": placed.iter().map(|p| format!("{:?}", p)).collect::<Vec<_>>()}));
      }
      Ok(())
    }
    Err((law, msg)) => {
      if law == "parse_panic" || law == "format_panic" {
        st.crash(&law);
      }
      Err(Fail::new(format!("[{}] {} ; text={:?}", law, msg, text), json!({"check": check, "text": text, "law": law, "format": format, "positions": placed.iter().map(|p| format!("{:?}", p)).collect::<Vec<_>>()})))
    }
  }
}

fn fixtures() -> Vec<(String, String)> {
  let mut out = vec![];
  let mut stack = vec![std::path::PathBuf::from("/repo/tests/fixtures"), std::path::PathBuf::from("/repo/www")];
  while let Some(d) = stack.pop() {
    if let Ok(rd) = std::fs::read_dir(&d) {
      let mut es: Vec<_> = rd.filter_map(|e| e.ok()).map(|e| e.path()).collect();
      es.sort();
      for p in es {
        if p.is_dir() {
          if p.file_name().map(|n| n == "node_modules").unwrap_or(false) {
            continue;
          }
          stack.push(p);
        } else if p.extension().map(|e| e == "cddl").unwrap_or(false) {
          if let Ok(t) = std::fs::read_to_string(&p) {
            out.push((p.display().to_string(), t));
          }
        }
      }
    }
  }
  out.sort();
  out
}

pub fn run(ctx: &Ctx) {
  ctx.set_rule(
    "cases: CDDL texts rendered from random grammar derivations (own model and printer) with comments placed by the \
     generator at S positions of the RFC 8610 grammar (36 kinds of position; unique comment texts, some containing \
     quotes, apostrophes, ';', '=', brackets, non-ASCII), text and byte-string literals that contain ';', LF / CRLF; \
     sub-check `one_comment` places exactly one comment at one position kind. Oracle: (1) every comment stored in \
     the AST (all 50 comment slots are walked) is the unchanged text of a comment found by an independent scan of \
     the source (';' outside literals up to the line end) and is stored at most as often as it occurs there; (2) an \
     independent scan of the formatted text finds exactly the multiset of attached comments; (3) the formatted text \
     parses to the same skeleton (rules, choices, entries, operators, literals). Non-trivial: at least one comment \
     in the source; distinct by text.",
  );
  ctx.assume("comments that the parser does not attach to any node are allowed by the statement ('at most one AST node') and only counted");
  let n = ctx.tier.pick(300_000, 8_000_000);
  let mut opts = SynOpts::default();
  // open finding C16-F1: the type inside `#6.<...>` is kept as raw source text, so a comment in it is emitted
  // verbatim and, when the parser also attaches it to a following node, a second time
  if ctx.excl("comment_inside_tag_type_constraint") || std::env::var("VERIF_C16_NO_TAGTYPE").is_ok() {
    opts.no_type_tagnum = true;
  }
  let banned: Vec<Pos> = ALL_POS.iter().copied().filter(|p| ctx.excl(&format!("comment_at_{:?}", p))).collect();
  let only: Option<Pos> = std::env::var("VERIF_COMMENT_POS").ok().and_then(|n| ALL_POS.iter().copied().find(|p| format!("{:?}", p) == n));
  let allowed: Vec<Pos> = ALL_POS.iter().copied().filter(|p| !banned.contains(p)).collect();
  ctx.set_extra("comment_positions_explored", json!(allowed.iter().map(|p| format!("{:?}", p)).collect::<Vec<_>>()));
  ctx.set_extra("comment_positions_excluded_by_open_findings", json!(banned.iter().map(|p| format!("{:?}", p)).collect::<Vec<_>>()));

  // parser side only (laws 1): every position kind, no exclusions; literals with ';' inside, byte strings with inner comments
  let mut aopts = SynOpts::default();
  aopts.bytes_with_inner_comment = true;
  search(ctx, "attachment", n * 2, 260, |t: &mut Tape, st: &mut Stats| {
    let s = SynGen::new(t, &aopts).schema();
    let mut tr = TapeTrivia::new(t, true);
    tr.crlf = true;
    tr.nonascii_comments = true;
    tr.only_at = only;
    let mut text = render_with(&s, &mut tr);
    for p in &tr.placed {
      st.count(&format!("comment@{:?}", p));
    }
    let placed = tr.placed.clone();
    if text.contains("inner-note") {
      st.count("byte_string_with_inner_comment");
    }
    match t.below(3) {
      0 => text.push('\n'),
      1 => text.insert_str(0, "; head comment\n"),
      _ => {}
    }
    eval(ctx, "attachment", &text, &placed, false, st)
  });

  search(ctx, "many_comments", n, 260, |t: &mut Tape, st: &mut Stats| {
    let s = SynGen::new(t, &opts).schema();
    let mut tr = TapeTrivia::new(t, true);
    tr.crlf = true;
    tr.nonascii_comments = true;
    tr.no_comment_at = banned.clone();
    tr.only_at = only;
    let mut text = render_with(&s, &mut tr);
    for p in &tr.suppressed {
      st.exclude(&format!("comment_at_{:?}", p));
    }
    for p in &tr.placed {
      st.count(&format!("comment@{:?}", p));
    }
    let placed = tr.placed.clone();
    match t.below(3) {
      0 => text.push('\n'),
      1 => text.insert_str(0, "; head comment\n"),
      _ => {}
    }
    eval(ctx, "many_comments", &text, &placed, true, st)
  });

  // exactly one comment, at one allowed position kind chosen first: small documents, every kind gets its share
  if !allowed.is_empty() {
    search(ctx, "one_comment", n, 260, |t: &mut Tape, st: &mut Stats| {
      let pos = if let Some(o) = only { o } else { allowed[t.below(allowed.len())] };
      let s = SynGen::new(t, &opts).schema();
      let mut tr = TapeTrivia::new(t, true);
      tr.crlf = true;
      tr.only_at = Some(pos);
      tr.max_comments = Some(1);
      let text = render_with(&s, &mut tr);
      let placed = tr.placed.clone();
      if placed.is_empty() {
        st.count("no_such_position_in_document");
        return Ok(());
      }
      st.count(&format!("comment@{:?}", pos));
      eval(ctx, "one_comment", &text, &placed, true, st)
    });
  }

  let fx = fixtures();
  sweep(ctx, "fixtures", &fx, |(_, text), st| eval(ctx, "fixtures", text, &[], true, st));
}
