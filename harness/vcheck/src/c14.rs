//! C14 — validation failures are reported faithfully and deterministically.
use crate::semcheck::{gen_case, Mode};
use vcore::calls::{self, V};
use vcore::cbor::{self, CVal};
use vcore::jsonw;
use vcore::semgen::GenOpts;
use vcore::{json, search, Ctx, Fail, Stats, Tape, J};

fn gen_opts(ctx: &Ctx, cborm: bool) -> GenOpts {
  let mut o = if cborm { crate::c02::gen_opts(ctx) } else { crate::c01::gen_opts(ctx) };
  // text controls with a small pattern pool, so that different calls share pattern texts
  o.extras = true;
  o.unwrap = false;
  o.choice_from_group = false;
  o.sockets = false;
  o.default_ctl = false;
  o.cat_plus = false;
  o.regexp = true;
  o.text_ctl_variants = true;
  o
}

/// resolve a slash separated location against a JSON-model value; "" is the root
pub fn resolves(doc: &CVal, loc: &str) -> bool {
  if loc.is_empty() {
    return true;
  }
  if !loc.starts_with('/') {
    return false;
  }
  let mut cur = doc;
  for seg in loc[1..].split('/') {
    match cur {
      CVal::Map(m) => match m.iter().find(|(k, _)| matches!(k, CVal::Text(s) if s == seg)) {
        Some((_, v)) => cur = v,
        None => return false,
      },
      CVal::Array(a) => match seg.parse::<usize>() {
        Ok(i) if i < a.len() => cur = &a[i],
        _ => return false,
      },
      _ => return false,
    }
  }
  true
}

/// Like `resolves`, for documents whose keys may contain '/': the crate does not escape keys in locations, so a
/// location resolves if SOME way of joining consecutive segments into keys leads to a node.
pub fn resolves_joined(doc: &CVal, loc: &str) -> bool {
  fn go(cur: &CVal, segs: &[&str]) -> bool {
    if segs.is_empty() {
      return true;
    }
    match cur {
      CVal::Map(m) => (1..=segs.len()).any(|n| {
        let key = segs[..n].join("/");
        m.iter().any(|(k, v)| matches!(k, CVal::Text(s) if *s == key) && go(v, &segs[n..]))
      }),
      CVal::Array(a) => match segs[0].parse::<usize>() {
        Ok(i) if i < a.len() => go(&a[i], &segs[1..]),
        _ => false,
      },
      _ => false,
    }
  }
  if loc.is_empty() {
    return true;
  }
  if !loc.starts_with('/') {
    return false;
  }
  let segs: Vec<&str> = loc[1..].split('/').collect();
  go(doc, &segs)
}

/// (schema, document) pairs with '/' inside map keys: 7 map shapes x maps of two / three entries over 8 keys
fn slash_key_pairs() -> Vec<(String, CVal)> {
  let t = |s: &str| CVal::Text(s.to_string());
  let keys = ["a/c", "b", "a", "c", "x/y", "z", "/", "a/"];
  let schemas: [(&str, u8); 7] = [
    ("root = { \"a/c\" : int , b : int }\n", 0),
    ("root = { * tstr => int }\n", 0),
    ("root = { \"a/c\" : int , * tstr => int }\n", 0),
    ("root = { outer : { \"x/y\" : int , z : int } }\n", 1),
    ("root = { * tstr => { * tstr => int } }\n", 2),
    ("root = { \"a/c\" : int , ? b : int }\n", 0),
    ("root = { \"a/c\" : [ * int ] , b : [ * int ] , ? \"x/y\" : [ * int ] }\n", 3),
  ];
  let mut v = vec![];
  for (text, shape) in schemas {
    let leaf = |good: bool| -> CVal {
      match (shape, good) {
        (3, true) => CVal::Array(vec![CVal::Int(1)]),
        (3, false) => CVal::Array(vec![CVal::Int(1), t("x")]),
        (_, true) => CVal::Int(1),
        (_, false) => t("x"),
      }
    };
    let mut maps: Vec<CVal> = vec![];
    for (i, k1) in keys.iter().enumerate() {
      for (j, k2) in keys.iter().enumerate() {
        if i == j {
          continue;
        }
        for bits in 0..4u8 {
          maps.push(CVal::Map(vec![(t(k1), leaf(bits & 1 == 0)), (t(k2), leaf(bits & 2 == 0))]));
        }
        let k3 = keys[(i + j) % keys.len()];
        if k3 != *k1 && k3 != *k2 {
          maps.push(CVal::Map(vec![(t(k1), leaf(true)), (t(k2), leaf(true)), (t(k3), leaf(false))]));
        }
      }
    }
    for (n, m) in maps.iter().enumerate() {
      let doc = match shape {
        1 => CVal::Map(vec![(t("outer"), m.clone())]),
        2 => CVal::Map(vec![(t("p/q"), m.clone()), (t("r"), maps[(n * 7 + 3) % maps.len()].clone())]),
        _ => m.clone(),
      };
      v.push((text.to_string(), doc));
    }
  }
  v
}

fn keys_ok(v: &CVal) -> bool {
  match v {
    CVal::Map(m) => m.iter().all(|(k, x)| matches!(k, CVal::Text(s) if !s.contains('/')) && keys_ok(x)),
    CVal::Array(a) => a.iter().all(keys_ok),
    _ => true,
  }
}

pub fn check_json(schema: &str, doc: &CVal) -> Result<V, String> {
  let jtxt = jsonw::to_json(doc);
  let r = calls::validate_json_local(schema, &jtxt, None);
  match &r {
    V::Invalid(l) => {
      if l.is_empty() {
        return Err("Err(Validation(list)) with an empty list".into());
      }
      for (loc, reason) in l {
        if !resolves(doc, loc) {
          return Err(format!("error location {:?} does not resolve to a node of the document {} (reason: {})", loc, jtxt, reason));
        }
      }
    }
    V::DocErr(e) => return Err(format!("a well-formed JSON document was reported as malformed: {}", e)),
    _ => {}
  }
  let r2 = calls::validate_json_local(schema, &jtxt, None);
  if r2 != r {
    return Err(format!("a repeated call gave a different result: first {} ; second {}", r.brief(), r2.brief()));
  }
  Ok(r)
}

pub fn replay(_ctx: &Ctx, case: &J) -> Result<(), String> {
  if case["check"].as_str() == Some("worker_history") {
    let calls_: Vec<(String, String, Vec<u8>)> = case["calls"]
      .as_array()
      .ok_or("no calls")?
      .iter()
      .map(|c| (c[0].as_str().unwrap_or("").to_string(), c[1].as_str().unwrap_or("").to_string(), cbor::unhex(c[2].as_str().unwrap_or(""))))
      .collect();
    return worker_history(&calls_).map_err(|(m, _)| m);
  }
  let schema = case["schema"].as_str().ok_or("no schema")?;
  match case["check"].as_str().unwrap_or("") {
    "faithful_json" | "regression" => {
      let jtxt = case["json"].as_str().ok_or("no json")?;
      // rebuild the value through serde-free parsing is not available: use the crate's own JSON reader only to
      // resolve locations (serde_json is a dependency of the harness too)
      let v: serde_json::Value = serde_json::from_str(jtxt).map_err(|e| e.to_string())?;
      let doc = from_serde(&v);
      check_json(schema, &doc).map(|_| ())
    }
    "slash_keys" => {
      let jtxt = case["json"].as_str().ok_or("no json")?;
      let v: serde_json::Value = serde_json::from_str(jtxt).map_err(|e| e.to_string())?;
      let doc = from_serde(&v);
      match calls::validate_json_local(schema, jtxt, None) {
        V::Invalid(l) => match l.iter().find(|(loc, _)| !resolves_joined(&doc, loc)) {
          Some((loc, reason)) => Err(format!("error location {:?} does not lead to a node of the document (reason: {})", loc, reason)),
          None => Ok(()),
        },
        _ => Ok(()),
      }
    }
    "fault_kinds" => {
      let kind = case["kind"].as_str().unwrap_or("");
      let r = match kind {
        "bad_cbor" => calls::validate_cbor_local(schema, &cbor::unhex(case["cbor"].as_str().unwrap_or("")), None),
        _ => calls::validate_json_local(schema, case["json"].as_str().unwrap_or(""), None),
      };
      let want = case["want"].as_str().unwrap_or("");
      if r.class() == want {
        Ok(())
      } else {
        Err(format!("expected error kind {}, got {}", want, r.brief()))
      }
    }
    other => Err(format!("unknown check {}", other)),
  }
}

/// One self-contained history: the calls in order in ONE new worker process (one thread, so thread-local and static
/// state accumulates), then each call alone in a new worker process of its own; every result must be the same.
/// A pure function of `calls` (no state of the harness process is involved), so a failure shrinks and replays.
fn worker_history(calls_: &[(String, String, Vec<u8>)]) -> Result<(), (String, usize)> {
  calls::reset_worker();
  let together: Vec<V> = calls_.iter().map(|(k, s, d)| calls::worker_call(k, s, d)).collect();
  for (i, (k, s, d)) in calls_.iter().enumerate() {
    if matches!(together[i], V::Abort(_) | V::Hang) {
      continue;
    }
    calls::reset_worker();
    let alone = calls::worker_call(k, s, d);
    if matches!(alone, V::Abort(_) | V::Hang) {
      continue;
    }
    if alone != together[i] {
      calls::reset_worker();
      return Err((
        format!(
          "result depends on the calls made before it in the same process: call #{} ({} validation, schema {:?}, document {}): alone in a new process {} ; after the {} earlier calls {}",
          i,
          k,
          s,
          if k == "cbor" { cbor::hex(d) } else { String::from_utf8_lossy(d).to_string() },
          alone.brief(),
          i,
          together[i].brief()
        ),
        i,
      ));
    }
  }
  calls::reset_worker();
  Ok(())
}

fn from_serde(v: &serde_json::Value) -> CVal {
  match v {
    serde_json::Value::Null => CVal::null(),
    serde_json::Value::Bool(b) => CVal::bool(*b),
    serde_json::Value::Number(n) => {
      if let Some(i) = n.as_i64() {
        CVal::Int(i as i128)
      } else if let Some(u) = n.as_u64() {
        CVal::Int(u as i128)
      } else {
        CVal::f(n.as_f64().unwrap_or(0.0))
      }
    }
    serde_json::Value::String(s) => CVal::Text(s.clone()),
    serde_json::Value::Array(a) => CVal::Array(a.iter().map(from_serde).collect()),
    serde_json::Value::Object(o) => CVal::Map(o.iter().map(|(k, v)| (CVal::Text(k.clone()), from_serde(v))).collect()),
  }
}

pub fn run(ctx: &Ctx) {
  ctx.set_rule(
    "cases: (schema, document) pairs from the C01/C02 generators (both verdict classes) plus text controls over a small \
     pattern pool. (faithful_json) Err(Validation(list)) has a non-empty list; every json_location is \"\" or resolves \
     segment by segment (object key / array index) to a node of the document; a well-formed document is never reported \
     as malformed; an immediately repeated call returns the identical result (ordered (location, reason) list). \
     (fault_kinds) malformed schema / malformed document / non-conforming document map to three different error kinds, \
     for JSON and CBOR. (history) 96 cases are evaluated in order, then again in shuffled order on 8 threads at once: \
     identical results. (slash_keys) 7 map shapes x 2-3 entry maps over 8 keys of which 4 contain '/', exhaustively: every reported location leads to a node under some joining of its segments. (worker_history) a history of up to 28 calls (4 generated schemas, .regexp schemas also respelled with .pcre / .iregexp, shuffled) run in one new worker process and each call alone in its own new process must agree call by call. (fresh_process) results obtained after thousands of other calls equal the results of a freshly \
     started process. Non-trivial: a failing validation with >= 1 error located below the root (faithful), any case of the \
     other sub-checks; distinct (schema, document).",
  );
  ctx.assume("keys containing '/' are not generated (the location format cannot escape them)");
  ctx.assume("thread interleavings are whatever the OS scheduler produces");
  let o = gen_opts(ctx, false);
  let oc = gen_opts(ctx, true);
  let n = ctx.tier.pick(40_000u64, 800_000u64);

  search(ctx, "faithful_json", n, 420, |t: &mut Tape, st: &mut Stats| {
    let case = gen_case(t, &o, Mode::Json, 6);
    for (doc, kind) in &case.docs {
      if !jsonw::is_json_model(doc) || !keys_ok(doc) {
        continue;
      }
      st.eval();
      match check_json(&case.text, doc) {
        Ok(r) => {
          st.count(r.class());
          if let V::Invalid(l) = &r {
            if l.iter().any(|(loc, _)| !loc.is_empty()) {
              let key = (&case.text, jsonw::to_json(doc));
              if st.nontrivial(&key) {
                st.sample(&key, || json!({"schema": case.text, "json": jsonw::to_json(doc), "errors": l.iter().take(3).collect::<Vec<_>>(), "doc_kind": kind}));
              }
            }
          }
        }
        Err(m) => {
          return Err(Fail::new(
            format!("{} (schema {:?})", m, case.text),
            json!({"check": "faithful_json", "schema": case.text, "json": jsonw::to_json(doc)}),
          ))
        }
      }
    }
    Ok(())
  });

  search(ctx, "fault_kinds", n / 8, 420, |t: &mut Tape, st: &mut Stats| {
    let case = gen_case(t, &o, Mode::Json, 2);
    let doc = match case.docs.iter().find(|(d, _)| jsonw::is_json_model(d)) {
      Some((d, _)) => d.clone(),
      None => return Ok(()),
    };
    let good_json = jsonw::to_json(&doc);
    let bad_schema = format!("{} = = [", case.text.trim_end());
    let bad_json = match t.below(3) {
      0 => format!("{}{}", good_json, ","),
      1 => "{\"a\":".to_string(),
      _ => format!("[{}", good_json),
    };
    let good_cbor = cbor::encode(&doc);
    let mut bad_cbor = good_cbor.clone();
    bad_cbor.truncate(good_cbor.len().saturating_sub(1));
    if matches!(doc, CVal::Array(_) | CVal::Map(_)) && !bad_cbor.is_empty() {
      // still a prefix of a container: ill-formed
    } else {
      bad_cbor = vec![0x1c];
    }
    let probes: Vec<(&str, V, &str, String, String)> = vec![
      ("bad_schema_json", calls::validate_json_local(&bad_schema, &good_json, None), "schema_err", bad_schema.clone(), good_json.clone()),
      ("bad_json", calls::validate_json_local(&case.text, &bad_json, None), "doc_err", case.text.clone(), bad_json.clone()),
      ("bad_schema_cbor", calls::validate_cbor_local(&bad_schema, &good_cbor, None), "schema_err", bad_schema.clone(), cbor::hex(&good_cbor)),
      ("bad_cbor", calls::validate_cbor_local(&case.text, &bad_cbor, None), "doc_err", case.text.clone(), cbor::hex(&bad_cbor)),
    ];
    for (kind, r, want, s, d) in probes {
      st.eval();
      if r.class() != want {
        let mut rp = json!({"check": "fault_kinds", "kind": kind, "schema": s, "want": want});
        if kind == "bad_cbor" || kind == "bad_schema_cbor" {
          rp["cbor"] = json!(d);
        } else {
          rp["json"] = json!(d);
        }
        return Err(Fail::new(format!("{}: expected error kind {}, got {}", kind, want, r.brief()), rp));
      }
      let key = (kind, &s, &d);
      if st.nontrivial(&key) {
        st.sample(&key, || json!({"fault": kind, "schema": s, "input": d, "reported_as": r.class()}));
      }
    }
    Ok(())
  });

  // history / concurrency: results must not depend on what else ran in the process
  search(ctx, "history", ctx.tier.pick(60, 600), 3000, |t: &mut Tape, st: &mut Stats| {
    let mut work: Vec<(bool, String, Vec<u8>)> = vec![];
    for i in 0..12 {
      let cborm = i % 3 == 2;
      let case = gen_case(t, if cborm { &oc } else { &o }, if cborm { Mode::Cbor } else { Mode::Json }, 8);
      for (doc, _) in &case.docs {
        if cborm {
          if crate::c02::in_cbor_model(doc) {
            work.push((true, case.text.clone(), cbor::encode(doc)));
          }
        } else if jsonw::is_json_model(doc) {
          work.push((false, case.text.clone(), jsonw::to_json(doc).into_bytes()));
        }
      }
    }
    let eval = |w: &(bool, String, Vec<u8>)| -> V {
      if w.0 {
        calls::validate_cbor_local(&w.1, &w.2, None)
      } else {
        calls::validate_json_local(&w.1, std::str::from_utf8(&w.2).unwrap(), None)
      }
    };
    let baseline: Vec<V> = work.iter().map(eval).collect();
    st.evals_n(work.len() as u64);
    // shuffled, 8 threads, each thread goes through the whole list in its own order
    let orders: Vec<Vec<usize>> = (0..8)
      .map(|_| {
        let mut idx: Vec<usize> = (0..work.len()).collect();
        for i in (1..idx.len()).rev() {
          let j = t.below(i + 1);
          idx.swap(i, j);
        }
        idx
      })
      .collect();
    let mismatch: std::sync::Mutex<Option<(usize, V)>> = std::sync::Mutex::new(None);
    std::thread::scope(|sc| {
      for ord in &orders {
        let (work, baseline, mismatch) = (&work, &baseline, &mismatch);
        sc.spawn(move || {
          for &i in ord {
            let r = eval(&work[i]);
            if r != baseline[i] {
              let mut m = mismatch.lock().unwrap();
              if m.is_none() {
                *m = Some((i, r));
              }
              return;
            }
          }
        });
      }
    });
    if let Some((i, r)) = mismatch.into_inner().unwrap() {
      let w = &work[i];
      return Err(Fail::new(
        format!("result changed under concurrent / reordered calls: schema {:?}: alone {} ; concurrently {}", w.1, baseline[i].brief(), r.brief()),
        json!({"check": "faithful_json", "schema": w.1, "json": String::from_utf8_lossy(&w.2), "note": "history/concurrency failure; replay checks the single call"}),
      ));
    }
    for (i, w) in work.iter().enumerate().take(3) {
      let key = (&w.1, &w.2);
      if st.nontrivial(&key) {
        st.sample(&key, || json!({"schema": w.1, "validator": if w.0 { "cbor" } else { "json" }, "result": baseline[i].class(), "threads": 8}));
      }
    }
    Ok(())
  });

  // keys that contain '/': locations are built by appending "/key", so a location must still lead to a node of the
  // document under some joining of its segments (generated documents above never have '/' in keys)
  let sk = slash_key_pairs();
  vcore::sweep(ctx, "slash_keys", &sk, |(schema, doc), st| {
    st.eval();
    let jtxt = jsonw::to_json(doc);
    let r = calls::validate_json_local(schema, &jtxt, None);
    if let V::Invalid(l) = &r {
      if l.is_empty() {
        return Err(Fail::new("Err(Validation(list)) with an empty list".to_string(), json!({"check": "slash_keys", "schema": schema, "json": jtxt})));
      }
      for (loc, reason) in l {
        if !resolves_joined(doc, loc) {
          return Err(Fail::new(
            format!("error location {:?} does not lead to a node of the document {} under any reading of '/' in keys (reason: {}; schema {:?})", loc, jtxt, reason, schema),
            json!({"check": "slash_keys", "schema": schema, "json": jtxt}),
          ));
        }
      }
      let key = (schema, &jtxt);
      if st.nontrivial(&key) {
        st.sample(&key, || json!({"schema": schema, "json": jtxt, "locations": l.iter().map(|x| x.0.clone()).collect::<Vec<_>>()}));
      }
    } else if let V::DocErr(e) = &r {
      return Err(Fail::new(format!("a well-formed JSON document was reported as malformed: {}", e), json!({"check": "slash_keys", "schema": schema, "json": jtxt})));
    }
    st.count(r.class());
    Ok(())
  });

  // self-contained histories in worker processes (decisive form of the two checks around it: nothing depends on what
  // the harness process did before). Schemas that use .regexp get twins spelled with .pcre / .iregexp so that one
  // history holds the same pattern text under several operators.
  search(ctx, "worker_history", ctx.tier.pick(48, 480), 1200, |t: &mut Tape, st: &mut Stats| {
    let mut calls_: Vec<(String, String, Vec<u8>)> = vec![];
    for i in 0..4 {
      let cborm = i == 3;
      let case = gen_case(t, if cborm { &oc } else { &o }, if cborm { Mode::Cbor } else { Mode::Json }, 4);
      let mut texts = vec![case.text.clone()];
      if case.text.contains(".regexp") {
        texts.push(case.text.replace(".regexp", ".pcre"));
        texts.push(case.text.replace(".regexp", ".iregexp"));
        texts.push(case.text.clone());
      }
      for text in &texts {
        for (doc, _) in &case.docs {
          if cborm {
            if crate::c02::in_cbor_model(doc) {
              calls_.push(("cbor".into(), text.clone(), cbor::encode(doc)));
            }
          } else if jsonw::is_json_model(doc) {
            calls_.push(("json".into(), text.clone(), jsonw::to_json(doc).into_bytes()));
          }
        }
      }
    }
    // order of the history is part of the case
    for i in (1..calls_.len()).rev() {
      let j = t.below(i + 1);
      calls_.swap(i, j);
    }
    calls_.truncate(28);
    st.evals_n(calls_.len() as u64);
    if let Err((msg, _)) = worker_history(&calls_) {
      return Err(Fail::new(
        msg,
        json!({"check": "worker_history", "calls": calls_.iter().map(|(k, s, d)| json!([k, s, cbor::hex(d)])).collect::<Vec<_>>()}),
      ));
    }
    if calls_.iter().any(|c| c.1.contains(".pcre")) {
      st.count("history_with_one_pattern_under_several_operators");
    }
    for c in calls_.iter().take(2) {
      let key = (&c.1, &c.2);
      if st.nontrivial(&key) {
        st.sample(&key, || json!({"schema": c.1, "validator": c.0, "history_length": calls_.len()}));
      }
    }
    Ok(())
  });

  // fresh process: the same call in a brand-new process
  search(ctx, "fresh_process", ctx.tier.pick(400, 4000), 420, |t: &mut Tape, st: &mut Stats| {
    let case = gen_case(t, &o, Mode::Json, 3);
    for (doc, _) in &case.docs {
      if !jsonw::is_json_model(doc) {
        continue;
      }
      let jtxt = jsonw::to_json(doc);
      let here = calls::validate_json_local(&case.text, &jtxt, None);
      st.eval();
      // a new worker for this single call
      calls::reset_worker();
      let fresh = calls::worker_call("json", &case.text, jtxt.as_bytes());
      calls::reset_worker();
      if matches!(fresh, V::Abort(_) | V::Hang) {
        st.crash(fresh.class());
        continue;
      }
      if fresh != here {
        return Err(Fail::new(
          format!("result depends on process history: schema {:?} document {}: in a fresh process {} ; after other calls {}", case.text, jtxt, fresh.brief(), here.brief()),
          json!({"check": "faithful_json", "schema": case.text, "json": jtxt, "note": "fresh-process comparison failed; replay checks the single call"}),
        ));
      }
      let key = (&case.text, &jtxt);
      if st.nontrivial(&key) {
        st.sample(&key, || json!({"schema": case.text, "json": jtxt, "fresh_process": fresh.class(), "long_lived_process": here.class()}));
      }
    }
    Ok(())
  });
}
