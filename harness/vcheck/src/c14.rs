//! C14 — validation failures are reported faithfully and deterministically.
use crate::semcheck::{gen_case, Mode};
use vcore::calls::{self, V};
use vcore::cbor::{self, CVal};
use vcore::jsonw;
use vcore::semgen::GenOpts;
use vcore::{json, search, Ctx, Fail, Stats, Tape, J};

fn gen_opts(ctx: &Ctx, cborm: bool) -> GenOpts {
  let mut o = if cborm { crate::c02::gen_opts(ctx) } else { crate::c01::gen_opts(ctx) };
  // text controls with a small pattern pool, so that different calls share pattern texts
  o.extras = true;
  o.unwrap = false;
  o.choice_from_group = false;
  o.sockets = false;
  o.default_ctl = false;
  o.cat_plus = false;
  o.regexp = true;
  o.text_ctl_variants = true;
  o
}

/// resolve a slash separated location against a JSON-model value; "" is the root
pub fn resolves(doc: &CVal, loc: &str) -> bool {
  if loc.is_empty() {
    return true;
  }
  if !loc.starts_with('/') {
    return false;
  }
  let mut cur = doc;
  for seg in loc[1..].split('/') {
    match cur {
      CVal::Map(m) => match m.iter().find(|(k, _)| matches!(k, CVal::Text(s) if s == seg)) {
        Some((_, v)) => cur = v,
        None => return false,
      },
      CVal::Array(a) => match seg.parse::<usize>() {
        Ok(i) if i < a.len() => cur = &a[i],
        _ => return false,
      },
      _ => return false,
    }
  }
  true
}

fn keys_ok(v: &CVal) -> bool {
  match v {
    CVal::Map(m) => m.iter().all(|(k, x)| matches!(k, CVal::Text(s) if !s.contains('/')) && keys_ok(x)),
    CVal::Array(a) => a.iter().all(keys_ok),
    _ => true,
  }
}

pub fn check_json(schema: &str, doc: &CVal) -> Result<V, String> {
  let jtxt = jsonw::to_json(doc);
  let r = calls::validate_json_local(schema, &jtxt, None);
  match &r {
    V::Invalid(l) => {
      if l.is_empty() {
        return Err("Err(Validation(list)) with an empty list".into());
      }
      for (loc, reason) in l {
        if !resolves(doc, loc) {
          return Err(format!("error location {:?} does not resolve to a node of the document {} (reason: {})", loc, jtxt, reason));
        }
      }
    }
    V::DocErr(e) => return Err(format!("a well-formed JSON document was reported as malformed: {}", e)),
    _ => {}
  }
  let r2 = calls::validate_json_local(schema, &jtxt, None);
  if r2 != r {
    return Err(format!("a repeated call gave a different result: first {} ; second {}", r.brief(), r2.brief()));
  }
  Ok(r)
}

pub fn replay(_ctx: &Ctx, case: &J) -> Result<(), String> {
  let schema = case["schema"].as_str().ok_or("no schema")?;
  match case["check"].as_str().unwrap_or("") {
    "faithful_json" | "regression" => {
      let jtxt = case["json"].as_str().ok_or("no json")?;
      // rebuild the value through serde-free parsing is not available: use the crate's own JSON reader only to
      // resolve locations (serde_json is a dependency of the harness too)
      let v: serde_json::Value = serde_json::from_str(jtxt).map_err(|e| e.to_string())?;
      let doc = from_serde(&v);
      check_json(schema, &doc).map(|_| ())
    }
    "fault_kinds" => {
      let kind = case["kind"].as_str().unwrap_or("");
      let r = match kind {
        "bad_cbor" => calls::validate_cbor_local(schema, &cbor::unhex(case["cbor"].as_str().unwrap_or("")), None),
        _ => calls::validate_json_local(schema, case["json"].as_str().unwrap_or(""), None),
      };
      let want = case["want"].as_str().unwrap_or("");
      if r.class() == want {
        Ok(())
      } else {
        Err(format!("expected error kind {}, got {}", want, r.brief()))
      }
    }
    other => Err(format!("unknown check {}", other)),
  }
}

fn from_serde(v: &serde_json::Value) -> CVal {
  match v {
    serde_json::Value::Null => CVal::null(),
    serde_json::Value::Bool(b) => CVal::bool(*b),
    serde_json::Value::Number(n) => {
      if let Some(i) = n.as_i64() {
        CVal::Int(i as i128)
      } else if let Some(u) = n.as_u64() {
        CVal::Int(u as i128)
      } else {
        CVal::f(n.as_f64().unwrap_or(0.0))
      }
    }
    serde_json::Value::String(s) => CVal::Text(s.clone()),
    serde_json::Value::Array(a) => CVal::Array(a.iter().map(from_serde).collect()),
    serde_json::Value::Object(o) => CVal::Map(o.iter().map(|(k, v)| (CVal::Text(k.clone()), from_serde(v))).collect()),
  }
}

pub fn run(ctx: &Ctx) {
  ctx.set_rule(
    "cases: (schema, document) pairs from the C01/C02 generators (both verdict classes) plus text controls over a small \
     pattern pool. (faithful_json) Err(Validation(list)) has a non-empty list; every json_location is \"\" or resolves \
     segment by segment (object key / array index) to a node of the document; a well-formed document is never reported \
     as malformed; an immediately repeated call returns the identical result (ordered (location, reason) list). \
     (fault_kinds) malformed schema / malformed document / non-conforming document map to three different error kinds, \
     for JSON and CBOR. (history) 96 cases are evaluated in order, then again in shuffled order on 8 threads at once: \
     identical results. (fresh_process) results obtained after thousands of other calls equal the results of a freshly \
     started process. Non-trivial: a failing validation with >= 1 error located below the root (faithful), any case of the \
     other sub-checks; distinct (schema, document).",
  );
  ctx.assume("keys containing '/' are not generated (the location format cannot escape them)");
  ctx.assume("thread interleavings are whatever the OS scheduler produces");
  let o = gen_opts(ctx, false);
  let oc = gen_opts(ctx, true);
  let n = ctx.tier.pick(40_000u64, 800_000u64);

  search(ctx, "faithful_json", n, 420, |t: &mut Tape, st: &mut Stats| {
    let case = gen_case(t, &o, Mode::Json, 6);
    for (doc, kind) in &case.docs {
      if !jsonw::is_json_model(doc) || !keys_ok(doc) {
        continue;
      }
      st.eval();
      match check_json(&case.text, doc) {
        Ok(r) => {
          st.count(r.class());
          if let V::Invalid(l) = &r {
            if l.iter().any(|(loc, _)| !loc.is_empty()) {
              let key = (&case.text, jsonw::to_json(doc));
              if st.nontrivial(&key) {
                st.sample(&key, || json!({"schema": case.text, "json": jsonw::to_json(doc), "errors": l.iter().take(3).collect::<Vec<_>>(), "doc_kind": kind}));
              }
            }
          }
        }
        Err(m) => {
          return Err(Fail::new(
            format!("{} (schema {:?})", m, case.text),
            json!({"check": "faithful_json", "schema": case.text, "json": jsonw::to_json(doc)}),
          ))
        }
      }
    }
    Ok(())
  });

  search(ctx, "fault_kinds", n / 8, 420, |t: &mut Tape, st: &mut Stats| {
    let case = gen_case(t, &o, Mode::Json, 2);
    let doc = match case.docs.iter().find(|(d, _)| jsonw::is_json_model(d)) {
      Some((d, _)) => d.clone(),
      None => return Ok(()),
    };
    let good_json = jsonw::to_json(&doc);
    let bad_schema = format!("{} = = [", case.text.trim_end());
    let bad_json = match t.below(3) {
      0 => format!("{}{}", good_json, ","),
      1 => "{\"a\":".to_string(),
      _ => format!("[{}", good_json),
    };
    let good_cbor = cbor::encode(&doc);
    let mut bad_cbor = good_cbor.clone();
    bad_cbor.truncate(good_cbor.len().saturating_sub(1));
    if matches!(doc, CVal::Array(_) | CVal::Map(_)) && !bad_cbor.is_empty() {
      // still a prefix of a container: ill-formed
    } else {
      bad_cbor = vec![0x1c];
    }
    let probes: Vec<(&str, V, &str, String, String)> = vec![
      ("bad_schema_json", calls::validate_json_local(&bad_schema, &good_json, None), "schema_err", bad_schema.clone(), good_json.clone()),
      ("bad_json", calls::validate_json_local(&case.text, &bad_json, None), "doc_err", case.text.clone(), bad_json.clone()),
      ("bad_schema_cbor", calls::validate_cbor_local(&bad_schema, &good_cbor, None), "schema_err", bad_schema.clone(), cbor::hex(&good_cbor)),
      ("bad_cbor", calls::validate_cbor_local(&case.text, &bad_cbor, None), "doc_err", case.text.clone(), cbor::hex(&bad_cbor)),
    ];
    for (kind, r, want, s, d) in probes {
      st.eval();
      if r.class() != want {
        let mut rp = json!({"check": "fault_kinds", "kind": kind, "schema": s, "want": want});
        if kind == "bad_cbor" || kind == "bad_schema_cbor" {
          rp["cbor"] = json!(d);
        } else {
          rp["json"] = json!(d);
        }
        return Err(Fail::new(format!("{}: expected error kind {}, got {}", kind, want, r.brief()), rp));
      }
      let key = (kind, &s, &d);
      if st.nontrivial(&key) {
        st.sample(&key, || json!({"fault": kind, "schema": s, "input": d, "reported_as": r.class()}));
      }
    }
    Ok(())
  });

  // history / concurrency: results must not depend on what else ran in the process
  search(ctx, "history", ctx.tier.pick(60, 600), 3000, |t: &mut Tape, st: &mut Stats| {
    let mut work: Vec<(bool, String, Vec<u8>)> = vec![];
    for i in 0..12 {
      let cborm = i % 3 == 2;
      let case = gen_case(t, if cborm { &oc } else { &o }, if cborm { Mode::Cbor } else { Mode::Json }, 8);
      for (doc, _) in &case.docs {
        if cborm {
          if crate::c02::in_cbor_model(doc) {
            work.push((true, case.text.clone(), cbor::encode(doc)));
          }
        } else if jsonw::is_json_model(doc) {
          work.push((false, case.text.clone(), jsonw::to_json(doc).into_bytes()));
        }
      }
    }
    let eval = |w: &(bool, String, Vec<u8>)| -> V {
      if w.0 {
        calls::validate_cbor_local(&w.1, &w.2, None)
      } else {
        calls::validate_json_local(&w.1, std::str::from_utf8(&w.2).unwrap(), None)
      }
    };
    let baseline: Vec<V> = work.iter().map(eval).collect();
    st.evals_n(work.len() as u64);
    // shuffled, 8 threads, each thread goes through the whole list in its own order
    let orders: Vec<Vec<usize>> = (0..8)
      .map(|_| {
        let mut idx: Vec<usize> = (0..work.len()).collect();
        for i in (1..idx.len()).rev() {
          let j = t.below(i + 1);
          idx.swap(i, j);
        }
        idx
      })
      .collect();
    let mismatch: std::sync::Mutex<Option<(usize, V)>> = std::sync::Mutex::new(None);
    std::thread::scope(|sc| {
      for ord in &orders {
        let (work, baseline, mismatch) = (&work, &baseline, &mismatch);
        sc.spawn(move || {
          for &i in ord {
            let r = eval(&work[i]);
            if r != baseline[i] {
              let mut m = mismatch.lock().unwrap();
              if m.is_none() {
                *m = Some((i, r));
              }
              return;
            }
          }
        });
      }
    });
    if let Some((i, r)) = mismatch.into_inner().unwrap() {
      let w = &work[i];
      return Err(Fail::new(
        format!("result changed under concurrent / reordered calls: schema {:?}: alone {} ; concurrently {}", w.1, baseline[i].brief(), r.brief()),
        json!({"check": "faithful_json", "schema": w.1, "json": String::from_utf8_lossy(&w.2), "note": "history/concurrency failure; replay checks the single call"}),
      ));
    }
    for (i, w) in work.iter().enumerate().take(3) {
      let key = (&w.1, &w.2);
      if st.nontrivial(&key) {
        st.sample(&key, || json!({"schema": w.1, "validator": if w.0 { "cbor" } else { "json" }, "result": baseline[i].class(), "threads": 8}));
      }
    }
    Ok(())
  });

  // fresh process: the same call in a brand-new process
  search(ctx, "fresh_process", ctx.tier.pick(400, 4000), 420, |t: &mut Tape, st: &mut Stats| {
    let case = gen_case(t, &o, Mode::Json, 3);
    for (doc, _) in &case.docs {
      if !jsonw::is_json_model(doc) {
        continue;
      }
      let jtxt = jsonw::to_json(doc);
      let here = calls::validate_json_local(&case.text, &jtxt, None);
      st.eval();
      // a new worker for this single call
      calls::reset_worker();
      let fresh = calls::worker_call("json", &case.text, jtxt.as_bytes());
      calls::reset_worker();
      if matches!(fresh, V::Abort(_) | V::Hang) {
        st.crash(fresh.class());
        continue;
      }
      if fresh != here {
        return Err(Fail::new(
          format!("result depends on process history: schema {:?} document {}: in a fresh process {} ; after other calls {}", case.text, jtxt, fresh.brief(), here.brief()),
          json!({"check": "faithful_json", "schema": case.text, "json": jtxt, "note": "fresh-process comparison failed; replay checks the single call"}),
        ));
      }
      let key = (&case.text, &jtxt);
      if st.nontrivial(&key) {
        st.sample(&key, || json!({"schema": case.text, "json": jtxt, "fresh_process": fresh.class(), "long_lived_process": here.class()}));
      }
    }
    Ok(())
  });
}
