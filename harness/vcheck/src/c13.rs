//! C13 — CSV validation equals JSON validation of the draft's data-model mapping.
use vcore::calls::{self, V};
use vcore::cbor::CVal;
use vcore::jsonw;
use vcore::{json, search, Ctx, Fail, Stats, Tape, J};

const SCHEMAS: &[&str] = &[
  "csv = [ * [ tstr , uint ] ]\n",
  "csv = [ * [ * ( tstr / number ) ] ]\n",
  "csv = [ ? header , * record ]\nheader = [ + tstr ]\nrecord = [ tstr , int , ? float ]\n",
  "csv = [ * [ + any ] ]\n",
  "csv = [ * [ tstr .size 3 , * int ] ]\n",
  "csv = [ * [ 1 .. 5 , tstr ] ]\n",
  "csv = [ [ * tstr ] , * [ * number ] ]\n",
  "csv = [ * [ * text ] ]\n",
  "csv = [ ]\n",
  "csv = [ [ ] ]\n",
  "csv = [ * [ float ] ]\n",
  "csv = [ * [ int ] ]\n",
  "csv = [ * [ uint / tstr ] ]\n",
  "csv = [ * [ \"\" / number , * any ] ]\n",
  "csv = [ * row ]\nrow = [ id : uint , name : tstr , ? score : float / int ]\n",
  "csv = [ 2*3 [ 1*2 number ] ]\n",
];

/// field texts with a settled mapping
const TEXT_FIELDS: &[&str] = &[
  "abc", "x y", "hello", "a,b", "say \"hi\"", "line\nbreak", "cr\rlf\r\nend", "0x10", "NaN", "inf", "-inf", "infinity", "1e", "1.2.3", "--1", "1_0",
  "\u{661}\u{662}", "caf\u{e9}", "\u{4e16}\u{754c}", "e5", "-", "1,5", "true", "null", "\"", "12abc",
];
const NUM_FIELDS: &[&str] = &[
  "0", "1", "42", "-1", "-17", "1.5", "-2.5", "0.25", "-2.5e3", "1e5", "1E5", "2.5e-3", "18446744073709551615", "9223372036854775807",
  "9223372036854775808", "-9223372036854775808", "18446744073709551616", "-9223372036854775809", "123456789012345678901234567890", "100", "3.0",
];
/// spellings on which the draft's wording is not settled here: generated, not asserted
const AMBIGUOUS: &[&str] = &["007", "+3", "1.", ".5", "1e400", "-0", " 12", "12 ", "1e+5", "00", "-0.0"];

#[derive(Clone, Debug)]
struct Field {
  raw: String,
  quoted: bool,
}

fn mapped_field(raw: &str) -> CVal {
  if raw.is_empty() {
    return CVal::text("");
  }
  if !NUM_FIELDS.contains(&raw) {
    return CVal::text(raw);
  }
  // decimal integer that fits 64 bits -> integer; otherwise the (finite) floating point value
  let is_int = raw.trim_start_matches('-').bytes().all(|b| b.is_ascii_digit());
  if is_int {
    if let Ok(v) = raw.parse::<i128>() {
      if v >= i64::MIN as i128 && v <= u64::MAX as i128 {
        return CVal::Int(v);
      }
    }
  }
  CVal::f(raw.parse::<f64>().expect("numeric pool entries are valid decimal numbers"))
}

fn render_csv(t: &mut Tape, rows: &[Vec<Field>]) -> String {
  let mut out = String::new();
  let crlf = t.flag();
  let final_term = t.flag();
  for (ri, row) in rows.iter().enumerate() {
    for (fi, f) in row.iter().enumerate() {
      if fi > 0 {
        out.push(',');
      }
      let must = f.raw.contains(',') || f.raw.contains('"') || f.raw.contains('\n') || f.raw.contains('\r') || (row.len() == 1 && f.raw.is_empty()) || f.raw.starts_with(' ') || f.raw.ends_with(' ');
      if must || f.quoted {
        out.push('"');
        out.push_str(&f.raw.replace('"', "\"\""));
        out.push('"');
      } else {
        out.push_str(&f.raw);
      }
    }
    if ri + 1 < rows.len() || final_term {
      out.push_str(if crlf { "\r\n" } else { "\n" });
    }
  }
  out
}

pub fn replay(_ctx: &Ctx, case: &J) -> Result<(), String> {
  let schema = case["schema"].as_str().ok_or("no schema")?;
  let csv = case["csv"].as_str().ok_or("no csv")?;
  let mapped = case["mapped_json"].as_str().ok_or("no mapped_json")?;
  let header = case["header"].as_bool();
  let a = calls::validate_csv(schema, csv, header);
  let b = calls::validate_json_local(schema, mapped, None);
  if a.accepts() == b.accepts() {
    Ok(())
  } else {
    Err(format!("CSV validation: {} ; JSON validation of the mapped document: {}", a.brief(), b.brief()))
  }
}

pub fn run(ctx: &Ctx) {
  ctx.set_rule(
    "cases: a table of raw field texts (0-5 rows x 1-4 fields, ragged) rendered as RFC 4180 text with per-field choices \
     (quoted or not when legal, doubled quotes, embedded comma / CR / LF / CRLF, record terminator LF or CRLF, final \
     terminator present or not), a header flag (Some(true) / Some(false) / None) and a schema from a pool of 16 CSV-shaped \
     schemas. Field pool: plain text, empty, canonical numbers (incl. 64-bit boundaries and integers beyond), definitely-text \
     look-alikes (0x10, NaN, inf, 1e, 1.2.3, non-ASCII digits ...). Oracle: the mapped document is built by the harness \
     (header row text; other fields a number iff spelled as a decimal integer or decimal / exponent float with a finite \
     value; empty field = \"\"), and validate_csv_from_str must agree with validate_json_from_str on it. Ambiguous \
     spellings (007, +3, 1., .5, 1e400, -0, padded) are generated but not asserted. Non-trivial: a quoted field containing \
     a separator, quote or line break, a coerced number, or a ragged table; distinct (schema, csv, header).",
  );
  ctx.assume("blank lines and stray quotes inside unquoted fields are outside RFC 4180 and not generated");
  let n = ctx.tier.pick(800_000u64, 12_000_000u64);
  search(ctx, "csv_vs_json", n, 120, |t: &mut Tape, st: &mut Stats| {
    let schema = *t.pick(SCHEMAS);
    let nrows = t.weighted(&[8, 22, 30, 20, 12, 8]);
    let mut rows: Vec<Vec<Field>> = vec![];
    let width = 1 + t.below(4);
    let mut ambiguous = false;
    for _ in 0..nrows {
      let w = if t.chance(1, 5) { 1 + t.below(4) } else { width };
      let mut row = vec![];
      for _ in 0..w {
        let raw = match t.weighted(&[35, 40, 12, 13]) {
          0 => (*t.pick(TEXT_FIELDS)).to_string(),
          1 => (*t.pick(NUM_FIELDS)).to_string(),
          2 => String::new(),
          _ => {
            ambiguous = true;
            (*t.pick(AMBIGUOUS)).to_string()
          }
        };
        row.push(Field { raw, quoted: t.chance(1, 4) });
      }
      rows.push(row);
    }
    let header = match t.below(3) {
      0 => Some(true),
      1 => Some(false),
      _ => None,
    };
    let csv = render_csv(t, &rows);
    // the mapped document
    let mapped = CVal::Array(
      rows
        .iter()
        .enumerate()
        .map(|(ri, row)| CVal::Array(row.iter().map(|f| if header == Some(true) && ri == 0 { CVal::text(&f.raw) } else { mapped_field(&f.raw) }).collect()))
        .collect(),
    );
    let mj = jsonw::to_json(&mapped);
    st.eval();
    if ambiguous {
      st.count("ambiguous_spelling(not asserted)");
      let _ = calls::validate_csv(schema, &csv, header);
      return Ok(());
    }
    let a = calls::validate_csv(schema, &csv, header);
    let b = calls::validate_json_local(schema, &mj, None);
    if let V::Panic(p) = &a {
      st.crash(&calls::panic_site(p));
    }
    st.count(&format!("csv:{}", a.class()));
    st.count(&format!("header:{:?}", header));
    if a.accepts() != b.accepts() || matches!(a, V::DocErr(_)) {
      return Err(Fail::new(
        format!("CSV and mapped JSON disagree: schema {:?} header {:?} csv {:?}: CSV validation {} ; JSON validation of {} : {}", schema, header, csv, a.brief(), mj, b.brief()),
        json!({"check": "csv_vs_json", "schema": schema, "csv": csv, "header": header, "mapped_json": mj}),
      ));
    }
    let tricky = rows.iter().flatten().any(|f| f.raw.contains(',') || f.raw.contains('"') || f.raw.contains('\n') || f.raw.contains('\r'));
    let coerced = rows.iter().flatten().any(|f| NUM_FIELDS.contains(&f.raw.as_str()));
    let ragged = rows.iter().any(|r| r.len() != rows[0].len());
    if tricky {
      st.count("quoted_special_field");
    }
    if ragged {
      st.count("ragged");
    }
    if (tricky || coerced || ragged) && st.nontrivial(&(schema, &csv, header)) {
      st.sample(&(schema, &csv), || json!({"schema": schema, "csv": csv, "header": header, "mapped_json": mj, "verdict": a.class()}));
    }
    Ok(())
  });
}
