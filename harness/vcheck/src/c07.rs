//! C07 — literals denote exactly the value the RFC assigns, or the document is rejected.
use vcore::calls;
use vcore::cmodel::*;
use vcore::skel::{skel_opt, Opt};
use vcore::{json, search, Ctx, Fail, Stats, Tape, J};

// ---------------------------------------------------------------------------------------
// spellings with the value known by construction
// ---------------------------------------------------------------------------------------

const MAGS: &[u128] = &[
  0, 1, 2, 9, 10, 23, 24, 255, 256, 65535, 65536, 2147483647, 2147483648, 4294967295, 4294967296, 9007199254740991, 9007199254740992,
  9007199254740993, 9223372036854775807, 9223372036854775808, 9223372036854775809, 18446744073709551614, 18446744073709551615,
  18446744073709551616, 18446744073709551617, 36893488147419103232,
];

fn spell_uint(t: &mut Tape, m: u128) -> String {
  match t.weighted(&[50, 30, 20]) {
    0 => m.to_string(),
    1 => {
      let digits = format!("{:x}", m);
      let digits: String = digits.chars().map(|c| if t.flag() { c.to_ascii_uppercase() } else { c }).collect();
      format!("0{}{}", if t.chance(1, 4) { "X" } else { "x" }, digits)
    }
    _ => format!("0{}{:b}", if t.chance(1, 4) { "B" } else { "b" }, m),
  }
}

/// (value, spelling) of an integer literal; value outside i64::MIN..=u64::MAX is not representable
fn gen_int(t: &mut Tape) -> (i128, String) {
  let m = if t.chance(3, 4) { *t.pick(MAGS) } else { (t.u64_full() >> t.below(64)) as u128 };
  let neg = t.chance(1, 3) && m != 0;
  let sp = spell_uint(t, m);
  if neg {
    (-(m as i128), format!("-{}", sp))
  } else {
    (m as i128, sp)
  }
}

fn int_representable(v: i128) -> bool {
  v >= i64::MIN as i128 && v <= u64::MAX as i128
}

/// exact decimal expansion of m * 2^k (k may be negative)
fn dyadic_decimal(m: u64, k: i32) -> String {
  if k >= 0 {
    return format!("{}.0", (m as u128) << k);
  }
  // m / 2^-k = m * 5^-k / 10^-k
  let e = (-k) as u32;
  let num = (m as u128) * 5u128.pow(e);
  let s = num.to_string();
  let e = e as usize;
  if s.len() > e {
    format!("{}.{}", &s[..s.len() - e], &s[s.len() - e..])
  } else {
    format!("0.{}{}", "0".repeat(e - s.len()), s)
  }
}

/// (value, spelling, representable) of a float literal
fn gen_float(t: &mut Tape) -> (f64, String, bool) {
  match t.weighted(&[35, 25, 25, 15]) {
    0 => {
      // dyadic rational with exact decimal expansion
      let m = 1 + t.below(1 << 20) as u64;
      let k = t.range(-20, 20) as i32;
      let v = m as f64 * 2f64.powi(k);
      let mut sp = dyadic_decimal(m, k);
      // trailing zeros / exponent forms that keep the value
      match t.below(4) {
        0 => sp.push('0'),
        1 => {
          // move the decimal point: d.ddd -> dddd e-n
          let (ip, fp) = {
            let (a, b) = sp.split_once('.').unwrap();
            (a.to_string(), b.trim_end_matches('0').to_string())
          };
          let digits = format!("{}{}", ip, fp);
          let digits = digits.trim_start_matches('0').to_string();
          let digits = if digits.is_empty() { "0".to_string() } else { digits };
          sp = if fp.is_empty() { format!("{}e0", digits) } else { format!("{}{}-{}", digits, if t.flag() { "e" } else { "E" }, fp.len()) };
        }
        _ => {}
      }
      let neg = t.chance(1, 4);
      if neg {
        (-v, format!("-{}", sp), true)
      } else {
        (v, sp, true)
      }
    }
    1 => {
      // shortest round-trip spelling of an arbitrary finite double (round-trip is a guarantee of the formatter)
      let mut f = f64::from_bits(t.u64_full());
      if !f.is_finite() {
        f = 1.5;
      }
      let mut sp = format!("{:?}", f);
      if !sp.contains('.') && !sp.contains('e') {
        sp.push_str(".0");
      }
      // Rust prints 1e300 / 1e-7 : legal CDDL (int "e" exponent); also try upper-case E
      if t.chance(1, 4) {
        sp = sp.replace('e', "E");
      }
      (f, sp, true)
    }
    2 => {
      // hex float: mantissa (<= 52 bits) and exponent, exact by construction
      let mant_bits = 1 + t.below(40);
      let mant = 1 + (t.u64_full() & ((1u64 << mant_bits) - 1));
      let frac_digits = t.below(6);
      let exp = t.range(-60, 60);
      // value = mant * 16^-frac_digits * 2^exp
      let v = mant as f64 * 2f64.powi(exp as i32 - 4 * frac_digits as i32);
      let hex = format!("{:x}", mant);
      let hex = if hex.len() <= frac_digits { format!("{}{}", "0".repeat(frac_digits - hex.len() + 1), hex) } else { hex };
      let (ip, fp) = hex.split_at(hex.len() - frac_digits);
      let hex_sp: String = format!("{}{}{}", ip, if frac_digits > 0 { "." } else { "" }, fp).chars().map(|c| if t.flag() { c.to_ascii_uppercase() } else { c }).collect();
      let sp = format!("0x{}{}{}{}", hex_sp, if t.chance(1, 4) { "P" } else { "p" }, if exp >= 0 && t.flag() { "+" } else { "" }, exp);
      if t.chance(1, 4) {
        (-v, format!("-{}", sp), true)
      } else {
        (v, sp, true)
      }
    }
    _ => {
      // not representable: the value is not finite
      let sp = *t.pick(&["1e400", "-1e400", "1.0e309", "0x1p1024", "0x1p2000", "-0x1.8p5000", "179769313486231580793728971405303415079934132710037826936173778980444968292764750946649017977587207096330286416692887910946555547851940402630657488671505820681908902000708383676273854845817711531764475730270069855571366959622842914819860834936475292719074168444365510704342711559699508093042880177904174497792.0"]);
      (f64::INFINITY, sp.to_string(), false)
    }
  }
}

/// (value, spelling, valid) of a text literal
fn gen_text(t: &mut Tape) -> (String, String, bool) {
  let n = t.below(6);
  let mut v = String::new();
  let mut sp = String::from("\"");
  let mut valid = true;
  let mut after_backslash = 0usize;
  for _ in 0..n {
    // text that merely looks like an escape: a backslash (spelled as an escape) followed by u, {, hex digits
    let lookalike = after_backslash > 0 && t.chance(2, 3);
    let cp: u32 = if lookalike {
      *t.pick(&['u' as u32, 'u' as u32, '{' as u32, 'D' as u32, '8' as u32, '0' as u32, 'C' as u32, 'F' as u32, '}' as u32, 'n' as u32])
    } else { match t.weighted(&[40, 10, 10, 10, 10, 10, 10]) {
      0 => t.range(0x20, 0x7e) as u32,
      1 => *t.pick(&[0x22u32, 0x5c, 0x2f, 0x08, 0x0c, 0x0a, 0x0d, 0x09]),
      2 => t.range(0xa0, 0x7ff) as u32,
      3 => t.range(0x800, 0xd7ff) as u32,
      4 => t.range(0xe000, 0xfffd) as u32,
      5 => t.range(0x10000, 0x10fffd) as u32,
      _ => *t.pick(&[0u32, 0x1f, 0x7f, 0x80, 0x9f, 0x10000, 0x1f600, 0x20000, 0xfffff, 0x100000, 0x10ffff]),
    } };
    after_backslash = if cp == 0x5c { 6 } else { after_backslash.saturating_sub(1) };
    let c = char::from_u32(cp).unwrap();
    v.push(c);
    let hexcase = |t: &mut Tape, s: String| -> String { s.chars().map(|ch| if t.flag() { ch.to_ascii_uppercase() } else { ch.to_ascii_lowercase() }).collect() };
    let raw_ok = matches!(cp, 0x20..=0x21 | 0x23..=0x5b | 0x5d..=0x7e | 0xa0..=0xd7ff | 0xe000..=0x10fffd);
    let short = match cp {
      0x22 => Some("\\\""),
      0x2f => Some("\\/"),
      0x5c => Some("\\\\"),
      0x08 => Some("\\b"),
      0x0c => Some("\\f"),
      0x0a => Some("\\n"),
      0x0d => Some("\\r"),
      0x09 => Some("\\t"),
      _ => None,
    };
    let form = if lookalike { 0 } else { t.weighted(&[if raw_ok { 40 } else { 0 }, if short.is_some() { 30 } else { 0 }, 20, 20]) };
    match form {
      0 => sp.push(c),
      1 => sp.push_str(short.unwrap()),
      2 => {
        // \uXXXX or surrogate pair
        if cp < 0x10000 {
          sp.push_str(&format!("\\u{}", hexcase(t, format!("{:04x}", cp))));
        } else {
          let x = cp - 0x10000;
          let hi = 0xd800 + (x >> 10);
          let lo = 0xdc00 + (x & 0x3ff);
          sp.push_str(&format!("\\u{}\\u{}", hexcase(t, format!("{:04x}", hi)), hexcase(t, format!("{:04x}", lo))));
        }
      }
      _ => {
        let zeros = "0".repeat(t.below(4));
        sp.push_str(&format!("\\u{{{}{}}}", zeros, hexcase(t, format!("{:x}", cp))));
      }
    }
  }
  // invalid escapes (RFC 9682 2.1): lone / reversed surrogates, out-of-range or surrogate \u{...}, unknown escapes
  if t.chance(1, 8) {
    valid = false;
    if t.flag() {
      sp.push_str(*t.pick(&["\\uD800", "\\uDC00", "\\uDC00\\uD800", "\\uD83D x", "\\u{110000}", "\\u{D800}", "\\u{DFFF}", "\\q", "\\u12", "\\u{}", "\\u{1234567}", "\\x41"]));
    } else {
      // a lone high surrogate followed by 0-3 ordinary characters / short escapes and then text that looks like
      // the hex digits of a low surrogate (but is not an escape)
      sp.push_str(*t.pick(&["\\uD800", "\\uD83D", "\\uDBFF", "\\ud83d"]));
      for _ in 0..t.below(3) {
        sp.push_str(*t.pick(&["X", "u", "\\n", "\\\\", "\\/", "Xu", "9"]));
      }
      sp.push_str(*t.pick(&["DC00", "DE00", "DFFF", "de00", "uDE00", ""]));
    }
  }
  sp.push('"');
  (v, sp, valid)
}

const B64STD: &[u8] = b"ABCDEFGHIJKLMNOPQRSTUVWXYZabcdefghijklmnopqrstuvwxyz0123456789+/";
const B64URL: &[u8] = b"ABCDEFGHIJKLMNOPQRSTUVWXYZabcdefghijklmnopqrstuvwxyz0123456789-_";

fn b64(v: &[u8], alpha: &[u8], pad: bool) -> String {
  let mut s = String::new();
  for ch in v.chunks(3) {
    let b = [ch[0], *ch.get(1).unwrap_or(&0), *ch.get(2).unwrap_or(&0)];
    let n = ((b[0] as u32) << 16) | ((b[1] as u32) << 8) | b[2] as u32;
    s.push(alpha[(n >> 18) as usize & 63] as char);
    s.push(alpha[(n >> 12) as usize & 63] as char);
    if ch.len() > 1 {
      s.push(alpha[(n >> 6) as usize & 63] as char);
    } else if pad {
      s.push('=');
    }
    if ch.len() > 2 {
      s.push(alpha[n as usize & 63] as char);
    } else if pad {
      s.push('=');
    }
  }
  s
}

fn sprinkle(t: &mut Tape, s: &str, unit: usize) -> String {
  // whitespace / line breaks / comments between units of `unit` characters
  let cs: Vec<char> = s.chars().collect();
  let mut out = String::new();
  for (i, c) in cs.iter().enumerate() {
    if i > 0 && i % unit == 0 {
      match t.weighted(&[70, 12, 8, 10]) {
        1 => out.push(' '),
        2 => out.push('\n'),
        3 => out.push_str(" ; note\n"),
        _ => {}
      }
    }
    out.push(*c);
  }
  out
}

/// (kind, value, spelling, valid)
fn gen_bytes(t: &mut Tape, x_sq: bool) -> (BytesKind, Vec<u8>, String, bool) {
  let n = t.below(7);
  let v: Vec<u8> = (0..n).map(|_| t.below(256) as u8).collect();
  match t.weighted(&[30, 35, 35]) {
    0 => {
      // '...' : printable ASCII / non-ASCII text; escapes \' and \\ (RFC 8610: BCHAR and SESC)
      let mut val = vec![];
      let mut sp = String::from("'");
      for _ in 0..t.below(6) {
        match t.weighted(&[60, 15, 10, 15]) {
          0 => {
            let c = t.range(0x20, 0x7e) as u8;
            if c == b'\'' || c == b'\\' {
              continue;
            }
            val.push(c);
            sp.push(c as char);
          }
          1 => {
            let c = *t.pick(&['\u{e9}', '\u{4e16}', '\u{1f600}']);
            let mut b = [0u8; 4];
            val.extend_from_slice(c.encode_utf8(&mut b).as_bytes());
            sp.push(c);
          }
          2 => {
            if t.chance(1, 2) && !x_sq {
              // SESC / "\'" inside '...'
              match t.below(3) {
                0 => {
                  val.push(b'\'');
                  sp.push_str("\\'");
                }
                1 => {
                  val.push(b'\\');
                  sp.push_str("\\\\");
                }
                _ => {
                  val.push(b'\n');
                  sp.push_str("\\n");
                }
              }
            } else {
              val.push(b';');
              sp.push(';');
            }
          }
          _ => {
            val.push(b'"');
            sp.push('"');
          }
        }
      }
      sp.push('\'');
      (BytesKind::Utf8, val, sp, true)
    }
    1 => {
      let hex: String = v.iter().map(|b| format!("{:02x}", b)).collect();
      let hex: String = hex.chars().map(|c| if t.flag() { c.to_ascii_uppercase() } else { c }).collect();
      if t.chance(1, 8) {
        // invalid: odd number of digits or a non-hex character
        let bad = if t.flag() { format!("{}a", hex) } else { format!("{}zz", hex) };
        return (BytesKind::Hex, v, format!("h'{}'", bad), false);
      }
      (BytesKind::Hex, v.clone(), format!("h'{}'", sprinkle(t, &hex, 2)), true)
    }
    _ => {
      let url = t.flag();
      let pad = t.flag();
      let body = b64(&v, if url { B64URL } else { B64STD }, pad);
      if t.chance(1, 8) {
        let bad = match t.below(4) {
          0 => format!("{}*", body),
          1 => "AB-/".to_string(),
          2 => format!("={}", body),
          _ => "A".to_string(),
        };
        return (BytesKind::B64, v, format!("b64'{}'", bad), false);
      }
      (BytesKind::B64, v.clone(), format!("b64'{}'", sprinkle(t, &body, 4)), true)
    }
  }
}

// ---------------------------------------------------------------------------------------
// positions
// ---------------------------------------------------------------------------------------

fn rule(body: Body) -> Schema {
  Schema(vec![RuleM { name: "a".into(), params: vec![], alt: false, body }])
}

/// place the literal at a syntactic position; returns (schema, position name)
fn place(t: &mut Tape, l: Lit) -> (Schema, &'static str) {
  let int = || Ty::name("int");
  let numeric = matches!(l, Lit::Int { .. } | Lit::Float { .. });
  let w = [20, 12, 12, if numeric { 14 } else { 0 }, 12, 12, 10, 8];
  match t.weighted(&w) {
    0 => (rule(Body::Ty(Ty::one(Ty2::Lit(l)))), "type"),
    1 => (rule(Body::Ty(Ty::one(Ty2::Map(Grp(vec![vec![Ent { occ: None, kind: EntKind::Val { key: Some(Key::Val(l)), ty: int() } }]]))))), "colon key"),
    2 => (
      rule(Body::Ty(Ty::one(Ty2::Map(Grp(vec![vec![Ent {
        occ: None,
        kind: EntKind::Val { key: Some(Key::Arrow { t1: Ty1::plain(Ty2::Lit(l)), cut: t.flag() }), ty: int() },
      }]]))))),
      "arrow key",
    ),
    3 => {
      let other = l.clone();
      let incl = t.flag();
      if t.flag() {
        (rule(Body::Ty(Ty(vec![Ty1 { t2: Ty2::Lit(l), op: Some((Op::Range { inclusive: incl }, Ty2::Lit(other))) }]))), "range bounds")
      } else {
        (rule(Body::Ty(Ty(vec![Ty1 { t2: Ty2::Lit(Lit::int(0)), op: Some((Op::Range { inclusive: incl }, Ty2::Lit(l))) }]))), "upper range bound")
      }
    }
    4 => (rule(Body::Ty(Ty(vec![Ty1 { t2: Ty2::Name { name: "tstr".into(), args: vec![] }, op: Some((Op::Ctl("default".into()), Ty2::Lit(l))) }]))), "control argument"),
    5 => {
      let mut s = rule(Body::Ty(Ty::one(Ty2::Name { name: "b".into(), args: vec![Ty1::plain(Ty2::Lit(l))] })));
      s.0.push(RuleM { name: "b".into(), params: vec!["t".into()], alt: false, body: Body::Ty(Ty::name("t")) });
      (s, "generic argument")
    }
    6 => (
      rule(Body::Ty(Ty::one(Ty2::Arr(Grp(vec![vec![
        Ent { occ: Some(Occ::Star), kind: EntKind::Val { key: None, ty: Ty(vec![Ty1::plain(Ty2::Lit(l.clone())), Ty1::plain(Ty2::Name { name: "int".into(), args: vec![] })]) } },
        Ent { occ: None, kind: EntKind::Val { key: Some(Key::Bare("k".into())), ty: Ty::one(Ty2::Lit(l)) } },
      ]]))))),
      "array entries",
    ),
    _ => (rule(Body::Grp(Ent { occ: Some(Occ::Opt), kind: EntKind::Val { key: Some(Key::Val(l.clone())), ty: Ty::one(Ty2::Lit(l)) } })), "group rule key and value"),
  }
}

pub fn check_accept(text: &str, expected: &str) -> Result<(), String> {
  match calls::with_parsed(text, |c| skel_opt(c, &Opt { normalize_bare_names: true })) {
    Ok(sk) => {
      if sk == expected {
        Ok(())
      } else {
        Err(format!("the AST does not carry the literal's value: expected {} got {}", expected.trim_end(), sk.trim_end()))
      }
    }
    Err(Ok(e)) => Err(format!("a valid literal is rejected: {}", e.lines().next().unwrap_or(""))),
    Err(Err(p)) => Err(format!("parser panicked at {}", p)),
  }
}

pub fn check_reject(text: &str) -> Result<(), String> {
  match calls::with_parsed(text, |c| skel_opt(c, &Opt { normalize_bare_names: true })) {
    Ok(sk) => Err(format!("a literal that is not representable / not valid is accepted, AST: {}", sk.trim_end())),
    Err(Ok(_)) => Ok(()),
    Err(Err(p)) => Err(format!("parser panicked at {}", p)),
  }
}

pub fn replay(_ctx: &Ctx, case: &J) -> Result<(), String> {
  let text = case["text"].as_str().ok_or("no text")?;
  match case["expected_skel"].as_str() {
    Some(exp) => check_accept(text, exp),
    None => check_reject(text),
  }
}

fn run_case(st: &mut Stats, check: &str, text: String, expected: Option<String>, pos: &str, what: &str, nontrivial: bool, excl: Option<&'static str>) -> Result<(), Fail> {
  st.eval();
  st.count(&format!("position:{}", pos));
  st.count(&format!("literal:{}", what));
  let r = match &expected {
    Some(e) => check_accept(&text, e),
    None => check_reject(&text),
  };
  match r {
    Ok(()) => {
      if nontrivial && st.nontrivial(&text) {
        st.sample(&text, || json!({"text": text, "position": pos, "literal": what, "expected": expected.as_deref().unwrap_or("<rejected>")}));
      }
      Ok(())
    }
    Err(m) => {
      if let Some(n) = excl {
        st.exclude(n);
        return Ok(());
      }
      let mut rp = json!({"check": check, "text": text, "position": pos});
      if let Some(e) = expected {
        rp["expected_skel"] = json!(e);
      }
      Err(Fail::new(format!("{} ; text {:?}", m, text), rp))
    }
  }
}

pub fn run(ctx: &Ctx) {
  ctx.set_rule(
    "cases: one literal with a spelling whose value is known by construction - integers as (sign, magnitude around 0, \
     2^31, 2^32, 2^53, 2^63, 2^64 or random, radix 10/16/2, digit and prefix case); decimal floats from dyadic rationals \
     m*2^k with their exact decimal expansion (plus exponent forms) and shortest round-trip spellings of random doubles; \
     hex floats from (mantissa, exponent); text as code points each spelled raw / short escape / \\uXXXX / surrogate pair / \
     \\u{..} with leading zeros and mixed case; byte strings as '..', h'..' (mixed case, blanks, line breaks, comments \
     between digits) and b64'..' (both alphabets, optional padding, embedded blanks) - placed at a random position (type, \
     colon key, arrow key, range bound, control argument, generic argument, array entry, group rule) or, for unsigned \
     integers, as occurrence bound / tag number / simple-value number. Oracle: the AST skeleton must carry exactly the \
     constructed value (integers exactly, floats by bits, text by code points, bytes by bytes); unrepresentable integers, \
     non-finite floats, invalid escapes, odd / non-alphabet hex and base64 must be rejected. Non-trivial: the spelling is \
     not the canonical decimal / plain form or the position is not the plain type position; distinct texts.",
  );
  let n = ctx.tier.pick(1_500_000u64, 20_000_000u64);
  let x_sq_escape = ctx.excl("bytes_single_quote_escapes");
  let x_invalid_u = ctx.excl("text_invalid_unicode_escape_dropped");
  let x_nonfinite = ctx.excl("float_nonfinite_accepted");

  search(ctx, "literals", n, 120, |t: &mut Tape, st: &mut Stats| {
    match t.weighted(&[30, 25, 25, 20]) {
      0 => {
        let (v, sp) = gen_int(t);
        let l = Lit::Int { v, sp: sp.clone() };
        let (s, pos) = place(t, l);
        let text = render(&s);
        let canon = sp == v.to_string();
        if int_representable(v) {
          run_case(st, "literals", text, Some(expected_skel(&s)), pos, "integer", !canon || pos != "type", None)
        } else {
          run_case(st, "literals", text, None, pos, "integer out of range", true, None)
        }
      }
      1 => {
        let (v, sp, ok) = gen_float(t);
        let l = Lit::Float { v, sp };
        let (s, pos) = place(t, l);
        let text = render(&s);
        if ok {
          run_case(st, "literals", text, Some(expected_skel(&s)), pos, "float", true, None)
        } else {
          run_case(st, "literals", text, None, pos, "float not finite", true, if x_nonfinite { Some("float_nonfinite_accepted") } else { None })
        }
      }
      2 => {
        let (v, sp, ok) = gen_text(t);
        let plain = sp == spell_text_plain(&v);
        let l = Lit::Text { v, sp };
        let (s, pos) = place(t, l);
        let text = render(&s);
        if ok {
          run_case(st, "literals", text, Some(expected_skel(&s)), pos, "text", !plain || pos != "type", None)
        } else {
          run_case(st, "literals", text, None, pos, "text with invalid escape", true, if x_invalid_u { Some("text_invalid_unicode_escape_dropped") } else { None })
        }
      }
      _ => {
        let (kind, v, sp, ok) = gen_bytes(t, x_sq_escape);
        let sq = kind == BytesKind::Utf8;
        let l = Lit::Bytes { kind, v, sp };
        let (s, pos) = place(t, l);
        let text = render(&s);
        if ok {
          run_case(st, "literals", text, Some(expected_skel(&s)), pos, "bytes", true, if sq && x_sq_escape { None } else { None })
        } else {
          run_case(st, "literals", text, None, pos, "bytes with invalid encoding", true, None)
        }
      }
    }
  });

  // unsigned integers at the positions that have their own decoders
  search(ctx, "uint_positions", n / 3, 60, |t: &mut Tape, st: &mut Stats| {
    let m = if t.chance(3, 4) { *t.pick(MAGS) } else { (t.u64_full() >> t.below(64)) as u128 };
    let sp = spell_uint(t, m);
    let fits = m <= u64::MAX as u128;
    match t.below(4) {
      0 => {
        // occurrence bounds n*m
        let lower = t.flag();
        let text = if lower { format!("a = [ {}* int ]\n", sp) } else { format!("a = [ *{} int ]\n", sp) };
        let exp = if lower { format!("(trule a = (T (array (G (GC (ref{{{}*}} int))))))\n", m) } else { format!("(trule a = (T (array (G (GC (ref{{*{}}} int))))))\n", m) };
        run_case(st, "uint_positions", text, if fits { Some(exp) } else { None }, "occurrence bound", "unsigned integer", true, None)
      }
      1 => {
        let text = format!("a = #6.{}( int )\n", sp);
        let exp = format!("(trule a = (T (tag {} (T (name int)))))\n", m);
        run_case(st, "uint_positions", text, if fits { Some(exp) } else { None }, "tag number", "unsigned integer", true, None)
      }
      2 => {
        let text = format!("a = #7.{}\n", sp);
        let exp = format!("(trule a = (T (major 7 {})))\n", m);
        // simple values are 0..255; what a larger (but representable) head number means is not asserted
        if m > 255 && fits {
          st.count("simple_value_number_above_255(not asserted)");
          return Ok(());
        }
        run_case(st, "uint_positions", text, if fits { Some(exp) } else { None }, "simple value number", "unsigned integer", true, None)
      }
      _ => {
        let mt = t.below(6);
        let text = format!("a = #{}.{}\n", mt, sp);
        let exp = format!("(trule a = (T (major {} {})))\n", mt, m);
        run_case(st, "uint_positions", text, if fits { Some(exp) } else { None }, "major type argument", "unsigned integer", true, None)
      }
    }
  });
}
