//! C02 — CBOR validation verdicts equal RFC 8610 semantics; the verdict does not depend on the encoding.
use crate::semcheck::*;
use vcore::calls::V;
use vcore::cbor::CVal;
use vcore::cmodel::{any_ent, is_table_key, walk_ent, walk_schema, walk_ty, Body, EntKind, Key, Occ, Schema, Ty, Ty2};
use vcore::sem::Verdict;
use vcore::semgen::GenOpts;
use vcore::{json, search, Ctx, Stats, Tape, J};

pub fn apply_env_off(o: &mut GenOpts) {
  if let Ok(off) = std::env::var("VERIF_GEN_OFF") {
    for f in off.split(',') {
      match f {
        "map_group_choices" => o.map_group_choices = false,
        "map_inline_groups" => o.map_inline_groups = false,
        "map_group_refs" => o.map_group_refs = false,
        "table_not_last" => o.table_not_last = false,
        "dup_literal_keys" => o.dup_literal_keys = false,
        "map_group_occ" => o.map_group_occ = false,
        "group_increments" => o.group_increments = false,
        "noncut_keys" => o.noncut_keys = false,
        "maps" => o.maps = false,
        "arrays" => o.arrays = false,
        "increments" => o.increments = false,
        "controls" => o.controls = false,
        "floats" => o.floats = false,
        "cbor" => o.cbor = false,
        "eq_on_bool" => o.eq_on_bool = false,
        "recursion" => o.recursion = false,
        "undefined" => o.undefined = false,
        "tag_without_number" => o.tag_without_number = false,
        _ => {}
      }
    }
  }
}

pub fn gen_opts(ctx: &Ctx) -> GenOpts {
  let mut o = GenOpts::default();
  o.cbor = true;
  o.eq_on_bool = !ctx.excl("eq_ne_non_text_numeric_target");
  o.group_alias_bodies = !ctx.excl("group_rule_aliasing_a_group_rule");
  o.undefined = !ctx.excl("cbor_undefined_is_null");
  o.map_group_choices = !ctx.excl("cbor_map_group_choice");
  o.map_group_occ = !ctx.excl("cbor_map_group_occurrence");
  o.group_increments = !ctx.excl("cbor_group_rule_increment_in_map");
  o.table_not_last = !ctx.excl("cbor_table_before_literal_key");
  o.dup_literal_keys = !ctx.excl("cbor_duplicate_literal_keys_greedy");
  o.tag_without_number = !ctx.excl("cbor_tag_without_number");
  apply_env_off(&mut o);
  o
}

/// does the type (following rule references) contain a map with an optional type-domain member?
fn has_opt_table_member(s: &Schema, t: &Ty, depth: usize) -> bool {
  if depth > 6 {
    return false;
  }
  let mut found = false;
  let names: std::cell::RefCell<Vec<&str>> = std::cell::RefCell::new(vec![]);
  walk_ty(
    t,
    &mut |en, in_map| {
      if in_map && vcore::sem::occ_bounds(&en.occ) == (0, Some(1)) && matches!(&en.kind, EntKind::Val { key: Some(k), .. } if is_table_key(k)) {
        found = true;
      }
      match &en.kind {
        EntKind::Ref { name, .. } => names.borrow_mut().push(name),
        _ => {}
      }
    },
    &mut |t1| match &t1.t2 {
      Ty2::Name { name, .. } | Ty2::Unwrap { name, .. } | Ty2::ChoiceName { name, .. } => names.borrow_mut().push(name),
      _ => {}
    },
  );
  if found {
    return true;
  }
  for n in names.into_inner() {
    for r in s.0.iter().filter(|r| r.name == n) {
      let hit = match &r.body {
        Body::Ty(t) => has_opt_table_member(s, t, depth + 1),
        Body::Grp(e) => {
          let mut f = false;
          walk_ent(
            e,
            true,
            &mut |en, in_map| {
              if in_map && vcore::sem::occ_bounds(&en.occ) == (0, Some(1)) && matches!(&en.kind, EntKind::Val { key: Some(k), .. } if is_table_key(k)) {
                f = true;
              }
            },
            &mut |_| {},
          );
          f
        }
      };
      if hit {
        return true;
      }
    }
  }
  false
}

/// a repeating table member whose value type contains a map with an optional type-domain member
pub fn nested_opt_table(s: &Schema) -> bool {
  any_ent(s, |en, in_map| {
    in_map
      && !matches!(vcore::sem::occ_bounds(&en.occ), (_, Some(1)))
      && match &en.kind {
        EntKind::Val { key: Some(k), ty } if is_table_key(k) => has_opt_table_member(s, ty, 0),
        _ => false,
      }
  })
}

/// the same literal member key written twice anywhere in the schema's map groups / group rules
pub fn has_dup_literal_key(s: &Schema) -> bool {
  let mut seen: Vec<String> = vec![];
  let mut dup = false;
  walk_schema(
    s,
    &mut |en, in_map| {
      if !in_map {
        return;
      }
      let id = match &en.kind {
        EntKind::Val { key: Some(Key::Bare(b)), .. } => Some(format!("{:?}", b)),
        EntKind::Val { key: Some(Key::Val(l)), .. } => Some(l.spelling().to_string()),
        EntKind::Val { key: Some(Key::Arrow { t1, .. }), .. } => match (&t1.t2, &t1.op) {
          (Ty2::Lit(l), None) => Some(l.spelling().to_string()),
          _ => None,
        },
        _ => None,
      };
      if let Some(id) = id {
        if seen.contains(&id) {
          dup = true;
        }
        seen.push(id);
      }
    },
    &mut |_| {},
  );
  dup
}

/// a map group with a literal-key member whose key also lies in the key domain of a type-domain member of the same
/// group that carries explicit occurrence bounds: the pair is claimed greedily by the literal member and the bound
/// of the other member is then judged without it (same root cause as C10-F1: no backtracking over claims)
pub fn literal_key_in_bounded_table_domain(s: &Schema) -> bool {
  use vcore::cmodel::{Grp, Lit};
  fn group_hit(g: &Grp) -> bool {
    for gc in &g.0 {
      let mut lit_int = false;
      let mut lit_text = false;
      for en in gc {
        let l = match &en.kind {
          EntKind::Val { key: Some(Key::Bare(_)), .. } => Some(false),
          EntKind::Val { key: Some(Key::Val(l)), .. } => Some(matches!(l, Lit::Int { .. })),
          EntKind::Val { key: Some(Key::Arrow { t1, .. }), .. } => match (&t1.t2, &t1.op) {
            (Ty2::Lit(l), None) => Some(matches!(l, Lit::Int { .. })),
            _ => None,
          },
          _ => None,
        };
        match l {
          Some(true) => lit_int = true,
          Some(false) => lit_text = true,
          None => {}
        }
      }
      for en in gc {
        if let EntKind::Val { key: Some(k), .. } = &en.kind {
          if is_table_key(k) && en.occ.is_some() && vcore::sem::occ_bounds(&en.occ) != (0, None) {
            let dom = match k {
              Key::Arrow { t1, .. } => match &t1.t2 {
                Ty2::Name { name, .. } => name.as_str(),
                _ => "any",
              },
              _ => "any",
            };
            let int_dom = !matches!(dom, "tstr" | "text" | "bstr" | "bytes" | "bool" | "float" | "nil" | "null");
            let text_dom = !matches!(dom, "uint" | "int" | "nint" | "number" | "integer" | "unsigned" | "bstr" | "bytes" | "bool" | "float" | "nil" | "null");
            if (lit_int && int_dom) || (lit_text && text_dom) {
              return true;
            }
          }
        }
      }
    }
    false
  }
  let mut hit = false;
  walk_schema(
    s,
    &mut |_, _| {},
    &mut |t1| {
      if let Ty2::Map(g) = &t1.t2 {
        if group_hit(g) {
          hit = true;
        }
      }
    },
  );
  hit
}

pub fn exclusions(ctx: &Ctx) -> impl Fn(&Schema, &CVal, Verdict, &V) -> Option<&'static str> {
  let opt_table = ctx.excl("cbor_optional_table_member_in_nested_map");
  let dup_keys = ctx.excl("cbor_duplicate_literal_keys_greedy");
  let greedy = ctx.excl("cbor_type_domain_members_greedy_claim");
  move |s, _d, e, _g| {
    if greedy && e == Verdict::Accept && literal_key_in_bounded_table_domain(s) {
      return Some("cbor_type_domain_members_greedy_claim");
    }
    if opt_table && e == Verdict::Accept && nested_opt_table(s) {
      return Some("cbor_optional_table_member_in_nested_map");
    }
    if dup_keys && e == Verdict::Accept && has_dup_literal_key(s) {
      return Some("cbor_duplicate_literal_keys_greedy");
    }
    None
  }
}

pub fn replay(_ctx: &Ctx, case: &J) -> Result<(), String> {
  replay_cbor(case)
}

pub fn run(ctx: &Ctx) {
  ctx.set_rule(
    "cases: a schema of the core fragment plus the CBOR-only constructs (bstr/bytes, byte string literals, #6.n(T), #0..#7, \
     #7.n, integer / bytes / any keys in literal and type-domain form, integers over the full 64-bit head range) x 8 data \
     items (3 samples, 4 near misses, 1 unrelated), each encoded three times (canonical + two random choices of head \
     width, indefinite length, string chunking, float width). Oracle: vcore::sem over the CBOR data model; all three \
     encodings must get the oracle's verdict. Non-trivial: the oracle entered an array or map and touched >= 2 construct \
     kinds, or a non-canonical encoding was used on a composite item; distinct = distinct (schema text, second encoding). Sub-check small_scope: the exhaustive small grammar of C01 plus integer keys, a uint-keyed table and a byte string x 39 data items, each in three encodings. Sub-check long_strings: literal equality and .size on text / byte strings of 4095..16385 bytes (beyond the decoder's 4096-byte read step) in arrays and maps x exact values, one-character changes near the end, one byte longer / shorter, each in three encodings.",
  );
  ctx.assume("float16/32/64 names are not generated: they are defined by the encoding, which the property says must not matter");
  ctx.assume("maps with duplicate keys are not asserted here (C10 covers them)");
  let o = gen_opts(ctx);
  ctx.set_extra("generator_options", json!(format!("{:?}", o)));
  let excl = exclusions(ctx);
  let n = ctx.tier.pick(40_000u64, 1_000_000u64);
  search(ctx, "core_cbor", n, 480, |t: &mut Tape, st: &mut Stats| {
    let case = gen_case(t, &o, Mode::Cbor, 8);
    for (doc, kind) in &case.docs {
      if !o.undefined && has_undefined(doc) {
        st.exclude("cbor_undefined_is_null");
        continue;
      }
      if !in_cbor_model(doc) {
        st.count("doc_outside_cbor_model(int beyond 64-bit head, NaN)");
        continue;
      }
      if has_dup_keys(doc) {
        st.count("doc_with_duplicate_keys(skipped)");
        continue;
      }
      eval_cbor(ctx, "core_cbor", &case.schema, &case.text, doc, kind, t, st, &excl)?;
    }
    Ok(())
  });
  // exhaustive small scope (shared with C01, plus integer keys and a byte string): each pair with the canonical and
  // two knob-driven encodings (the knobs of a pair are derived from its index)
  let pairs: Vec<(usize, vcore::cmodel::Schema, String, CVal)> = {
    let docs = crate::smallscope::documents(true);
    let mut v = vec![];
    for s in crate::smallscope::schemas(&o, true) {
      let text = vcore::cmodel::render(&s);
      for d in &docs {
        v.push((v.len(), s.clone(), text.clone(), d.clone()));
      }
    }
    v
  };
  vcore::sweep(ctx, "small_scope", &pairs, |(i, s, text, d), st| {
    let mut x = (*i as u64).wrapping_mul(0x9E3779B97F4A7C15) | 1;
    let words: Vec<u32> = (0..64)
      .map(|_| {
        x ^= x << 13;
        x ^= x >> 7;
        x ^= x << 17;
        (x >> 20) as u32
      })
      .collect();
    let mut t = Tape::new(&words);
    eval_cbor(ctx, "small_scope", s, text, d, "sample", &mut t, st, &excl)
  });
  // strings longer than the decoder's read buffer (4096 bytes): literal equality and .size on text / byte strings of
  // 4095..16385 bytes inside arrays and maps, exact values and near misses (one character changed beyond offset 4096,
  // one byte longer / shorter)
  let long = long_string_pairs();
  vcore::sweep(ctx, "long_strings", &long, |(i, s, text, d), st| {
    let words: Vec<u32> = (0..64u32).map(|k| (*i as u32).wrapping_mul(2654435761).rotate_left(k) ^ k.wrapping_mul(40503)).collect();
    let mut t = Tape::new(&words);
    eval_cbor(ctx, "long_strings", s, text, d, "sample", &mut t, st, &excl)
  });
  if survey_on() {
    survey_dump(ctx);
  }
}

fn long_string_pairs() -> Vec<(usize, vcore::cmodel::Schema, String, CVal)> {
  use vcore::cmodel::*;
  let name = |n: &str| Ty2::Name { name: n.to_string(), args: vec![] };
  let ent = |occ: Option<Occ>, key: Option<Key>, t1: Ty1| Ent { occ, kind: EntKind::Val { key, ty: Ty(vec![t1]) } };
  let size = |target: &str, n: usize| Ty1 { t2: name(target), op: Some((Op::Ctl("size".into()), Ty2::Lit(Lit::int(n as i128)))) };
  let root = |t2: Ty2| Schema(vec![RuleM { name: "root".into(), params: vec![], alt: false, body: Body::Ty(Ty(vec![Ty1::plain(t2)])) }]);
  let mut v = vec![];
  for len in [4095usize, 4096, 4097, 8191, 8193, 12289, 16385] {
    let mk_text = |n: usize, fill: char| -> String {
      let mut t = "a".repeat(n % 2);
      while t.len() + 2 <= n {
        t.push(fill);
      }
      while t.len() < n {
        t.push('z');
      }
      t
    };
    let exact = mk_text(len, '\u{e9}');
    // the same text with one character changed close to the end
    let mut changed: Vec<char> = exact.chars().collect();
    let k = changed.len() - 3;
    changed[k] = '\u{e8}';
    let changed: String = changed.into_iter().collect();
    let longer = format!("{}z", exact);
    let shorter = mk_text(len - 1, '\u{e9}');
    let bytes: Vec<u8> = (0..len).map(|i| (i * 7 + i / 4096) as u8).collect();
    let mut bytes_longer = bytes.clone();
    bytes_longer.push(1);
    let schemas = vec![
      root(Ty2::Arr(Grp(vec![vec![ent(Some(Occ::Plus), None, Ty1::plain(Ty2::Lit(Lit::text(&exact))))]]))),
      root(Ty2::Arr(Grp(vec![vec![ent(Some(Occ::Star), None, size("tstr", len))]]))),
      root(Ty2::Arr(Grp(vec![vec![ent(Some(Occ::Star), None, size("bstr", len))]]))),
      root(Ty2::Map(Grp(vec![vec![
        ent(None, Some(Key::Bare("k".into())), Ty1::plain(Ty2::Lit(Lit::text(&exact)))),
        ent(Some(Occ::Opt), Some(Key::Bare("j".into())), size("tstr", len)),
      ]]))),
    ];
    let txt = |s: &str| CVal::Text(s.to_string());
    let docs = vec![
      CVal::Array(vec![txt(&exact)]),
      CVal::Array(vec![txt(&exact), txt(&exact)]),
      CVal::Array(vec![txt(&changed)]),
      CVal::Array(vec![txt(&longer)]),
      CVal::Array(vec![txt(&shorter)]),
      CVal::Array(vec![CVal::Bytes(bytes.clone())]),
      CVal::Array(vec![CVal::Bytes(bytes_longer)]),
      CVal::Map(vec![(txt("k"), txt(&exact))]),
      CVal::Map(vec![(txt("k"), txt(&changed))]),
      CVal::Map(vec![(txt("k"), txt(&exact)), (txt("j"), txt(&changed))]),
      CVal::Map(vec![(txt("k"), txt(&exact)), (txt("j"), txt(&longer))]),
    ];
    for s in &schemas {
      let text = render(s);
      for d in &docs {
        v.push((v.len(), s.clone(), text.clone(), d.clone()));
      }
    }
  }
  v
}

pub fn has_dup_keys(v: &CVal) -> bool {
  match v {
    CVal::Array(a) => a.iter().any(has_dup_keys),
    CVal::Tag(_, x) => has_dup_keys(x),
    CVal::Map(m) => {
      for (i, (k, x)) in m.iter().enumerate() {
        if m[..i].iter().any(|(k2, _)| k2 == k) || has_dup_keys(k) || has_dup_keys(x) {
          return true;
        }
      }
      false
    }
    _ => false,
  }
}

pub fn has_undefined(v: &CVal) -> bool {
  match v {
    CVal::Simple(23) => true,
    CVal::Array(a) => a.iter().any(has_undefined),
    CVal::Tag(_, x) => has_undefined(x),
    CVal::Map(m) => m.iter().any(|(k, x)| has_undefined(k) || has_undefined(x)),
    _ => false,
  }
}

/// encodable integers (-2^64 ..= 2^64-1); NaN is left out (all NaNs are one value, comparisons with it are
/// not what this check is about)
pub fn in_cbor_model(v: &CVal) -> bool {
  match v {
    CVal::Int(i) => *i >= -(1i128 << 64) && *i < (1i128 << 64),
    CVal::Float(b) => !f64::from_bits(*b).is_nan(),
    CVal::Array(a) => a.iter().all(in_cbor_model),
    CVal::Tag(_, x) => in_cbor_model(x),
    CVal::Map(m) => m.iter().all(|(k, x)| in_cbor_model(k) && in_cbor_model(x)),
    _ => true,
  }
}
