//! C18 — the command-line tool reports exactly what the library decides.
use crate::semcheck::{gen_case, Mode};
use std::io::Write;
use std::path::{Path, PathBuf};
use std::process::{Command, Stdio};
use vcore::calls::{self, V};
use vcore::cbor::{self, hex, unhex, CVal};
use vcore::cmodel::{render_with, TapeTrivia};
use vcore::jsonw;
use vcore::semgen::GenOpts;
use vcore::syngen::{SynGen, SynOpts};
use vcore::{json, search, Ctx, Fail, Stats, Tape, J};

#[derive(Clone, Debug, PartialEq)]
enum Route {
  Json,
  Cbor,
  Csv,
}

#[derive(Clone, Debug)]
struct Doc {
  route: Route,
  name: String,
  /// None = the file does not exist
  bytes: Option<Vec<u8>>,
}

#[derive(Clone, Debug)]
struct Inv {
  /// None = the schema file does not exist
  schema: Option<String>,
  docs: Vec<Doc>,
  stdin: Option<Vec<u8>>,
  ci: bool,
  feats: Option<Vec<String>>,
  csv_header: bool,
  /// repeat the flag per file instead of one comma-separated list
  repeat_flags: bool,
}

impl Inv {
  fn to_json(&self) -> J {
    json!({
      "schema": self.schema,
      "docs": self.docs.iter().map(|d| json!({"route": format!("{:?}", d.route), "name": d.name, "hex": d.bytes.as_ref().map(|b| hex(b)),
         "text": d.bytes.as_ref().and_then(|b| String::from_utf8(b.clone()).ok())})).collect::<Vec<_>>(),
      "stdin_hex": self.stdin.as_ref().map(|b| hex(b)),
      "stdin_text": self.stdin.as_ref().and_then(|b| String::from_utf8(b.clone()).ok()),
      "ci": self.ci, "features": self.feats, "csv_header": self.csv_header, "repeat_flags": self.repeat_flags,
    })
  }
  fn from_json(j: &J) -> Option<Inv> {
    Some(Inv {
      schema: j["schema"].as_str().map(|s| s.to_string()),
      docs: j["docs"]
        .as_array()?
        .iter()
        .map(|d| Doc {
          route: match d["route"].as_str().unwrap_or("") {
            "Cbor" => Route::Cbor,
            "Csv" => Route::Csv,
            _ => Route::Json,
          },
          name: d["name"].as_str().unwrap_or("doc").to_string(),
          bytes: d["hex"].as_str().map(unhex),
        })
        .collect(),
      stdin: j["stdin_hex"].as_str().map(unhex),
      ci: j["ci"].as_bool().unwrap_or(false),
      feats: j["features"].as_array().map(|a| a.iter().filter_map(|x| x.as_str().map(|s| s.to_string())).collect()),
      csv_header: j["csv_header"].as_bool().unwrap_or(false),
      repeat_flags: j["repeat_flags"].as_bool().unwrap_or(false),
    })
  }
}

fn bin() -> PathBuf {
  let exe = std::env::current_exe().expect("current_exe");
  // <verif>/target/harness/release/vcheck -> <verif>/target/cli/release/cddl
  exe.parent().unwrap().parent().unwrap().parent().unwrap().join("cli").join("release").join("cddl")
}

fn scratch() -> PathBuf {
  let exe = std::env::current_exe().expect("current_exe");
  let base = exe.parent().unwrap().parent().unwrap().parent().unwrap().join("c18");
  let d = base.join(format!("{}_{:?}", std::process::id(), std::thread::current().id()).replace(['(', ')'], ""));
  let _ = std::fs::create_dir_all(&d);
  d
}

struct Ran {
  code: Option<i32>,
  out: String,
  timed_out: bool,
  argv: Vec<String>,
}

fn wait_with_timeout(mut child: std::process::Child, stdin: Option<&[u8]>, limit_s: u64, out_file: &Path) -> (Option<i32>, String, bool) {
  if let Some(b) = stdin {
    if let Some(mut si) = child.stdin.take() {
      let _ = si.write_all(b);
    }
  } else {
    drop(child.stdin.take());
  }
  let start = std::time::Instant::now();
  let mut timed_out = false;
  let mut nap = 200u64;
  let code = loop {
    match child.try_wait() {
      Ok(Some(st)) => break st.code(),
      Ok(None) => {
        if start.elapsed().as_secs() >= limit_s {
          let _ = child.kill();
          let _ = child.wait();
          timed_out = true;
          break None;
        }
        std::thread::sleep(std::time::Duration::from_micros(nap));
        nap = (nap * 2).min(5_000);
      }
      Err(_) => break None,
    }
  };
  let out = String::from_utf8_lossy(&std::fs::read(out_file).unwrap_or_default()).to_string();
  (code, out, timed_out)
}

/// stdout and stderr of the child go to one file in the scratch directory
fn out_stdio(dir: &Path) -> (PathBuf, Stdio, Stdio) {
  let p = dir.join("_tool_output.txt");
  let f = std::fs::File::create(&p).expect("create output file");
  let g = f.try_clone().expect("clone fd");
  (p, Stdio::from(f), Stdio::from(g))
}

fn path_of(dir: &Path, name: &str) -> PathBuf {
  dir.join(name)
}

fn run_cli(inv: &Inv, dir: &Path) -> Ran {
  // fresh files
  if let Ok(rd) = std::fs::read_dir(dir) {
    for e in rd.flatten() {
      let _ = std::fs::remove_file(e.path());
    }
  }
  let schema_path = path_of(dir, "schema.cddl");
  if let Some(s) = &inv.schema {
    std::fs::write(&schema_path, s).expect("write schema");
  }
  for d in &inv.docs {
    if let Some(b) = &d.bytes {
      std::fs::write(path_of(dir, &d.name), b).expect("write doc");
    }
  }
  let mut argv: Vec<String> = vec![];
  if inv.ci {
    argv.push("--ci".into());
  }
  argv.push("validate".into());
  argv.push("--cddl".into());
  argv.push(schema_path.display().to_string());
  if let Some(f) = &inv.feats {
    argv.push("--features".into());
    argv.push(f.join(","));
  }
  for (route, flag) in [(Route::Json, "--json"), (Route::Cbor, "--cbor"), (Route::Csv, "--csv")] {
    let files: Vec<String> = inv.docs.iter().filter(|d| d.route == route).map(|d| path_of(dir, &d.name).display().to_string()).collect();
    if files.is_empty() {
      continue;
    }
    if inv.repeat_flags {
      for f in files {
        argv.push(flag.into());
        argv.push(f);
      }
    } else {
      argv.push(flag.into());
      argv.push(files.join(","));
    }
  }
  if inv.csv_header {
    argv.push("--csv-header".into());
  }
  if inv.stdin.is_some() {
    argv.push("--stdin".into());
  }
  let (of, so, se) = out_stdio(dir);
  let child = Command::new(bin())
    .args(&argv)
    .env("NO_COLOR", "1")
    .stdin(if inv.stdin.is_some() { Stdio::piped() } else { Stdio::null() })
    .stdout(so)
    .stderr(se)
    .spawn()
    .expect("spawn the cddl binary (run.sh builds it into target/cli)");
  let (code, out, timed_out) = wait_with_timeout(child, inv.stdin.as_deref(), 20, &of);
  Ran { code, out, timed_out, argv }
}

#[derive(Debug, Clone, PartialEq)]
enum Exp {
  Ok,
  Fail,
  Missing,
  /// the library call aborted / hung / panicked: nothing is asserted from here on
  Unknown(String),
}

fn classify(v: V) -> Exp {
  match v {
    V::Ok => Exp::Ok,
    V::Abort(s) => Exp::Unknown(format!("library call aborted: {}", s)),
    V::Hang => Exp::Unknown("library call did not return".into()),
    V::Panic(p) => Exp::Unknown(format!("library call panicked at {}", p)),
    _ => Exp::Fail,
  }
}

/// The library's decision for each document, in the order the tool processes them (json, cbor, csv, stdin).
fn expected(inv: &Inv) -> Vec<(String, Exp)> {
  let schema = inv.schema.as_deref().unwrap_or("");
  let frefs: Option<Vec<&str>> = inv.feats.as_ref().map(|v| v.iter().map(|s| s.as_str()).collect());
  let feats: Option<&[&str]> = frefs.as_deref();
  let mut out = vec![];
  for route in [Route::Json, Route::Cbor, Route::Csv] {
    for d in inv.docs.iter().filter(|d| d.route == route) {
      let e = match &d.bytes {
        None => Exp::Missing,
        Some(b) => match route {
          Route::Json => match std::str::from_utf8(b) {
            Ok(_) => classify(calls::worker_call_feat("json", schema, b, feats)),
            Err(_) => Exp::Unknown("JSON file is not UTF-8: no corresponding library call".into()),
          },
          Route::Cbor => classify(calls::worker_call_feat("cbor", schema, b, feats)),
          Route::Csv => match std::str::from_utf8(b) {
            Ok(_) => classify(calls::worker_call_feat(if inv.csv_header { "csv1" } else { "csvn" }, schema, b, feats)),
            Err(_) => Exp::Unknown("CSV file is not UTF-8".into()),
          },
        },
      };
      out.push((d.name.clone(), e));
    }
  }
  if let Some(b) = &inv.stdin {
    // documented sniffing rule: UTF-8 is JSON, anything else CBOR
    let e = if std::str::from_utf8(b).is_ok() { classify(calls::worker_call_feat("json", schema, b, feats)) } else { classify(calls::worker_call_feat("cbor", schema, b, feats)) };
    out.push(("<stdin>".into(), e));
  }
  out
}

fn success_line(dir: &Path, name: &str) -> String {
  if name == "<stdin>" {
    "Validation from stdin is successful".into()
  } else {
    format!("Validation of {:?} is successful", path_of(dir, name))
  }
}
fn failure_line(dir: &Path, name: &str) -> String {
  if name == "<stdin>" {
    "Validation from stdin failed".into()
  } else {
    format!("Validation of {:?} failed", path_of(dir, name))
  }
}
fn missing_line(dir: &Path, name: &str) -> String {
  format!("{:?} does not exist", path_of(dir, name))
}

/// Err((law, message)) on disagreement; Ok(None) = inconclusive (library call did not finish / tool timed out)
fn has_root_type(schema: &str) -> bool {
  calls::with_parsed(schema, |c| c.rules.iter().any(|r| matches!(r, cddl::ast::Rule::Type { rule, .. } if rule.generic_params.is_none()))).unwrap_or(true)
}

fn compare(inv: &Inv, dir: &Path, no_root_excluded: bool) -> Result<Option<(Vec<(String, Exp)>, Ran)>, (String, String)> {
  let ran = run_cli(inv, dir);
  if ran.timed_out {
    return Ok(None);
  }
  let show = |r: &Ran| format!("argv={:?} exit={:?} output={:?}", r.argv, r.code, r.out.chars().take(1500).collect::<String>());
  if inv.schema.is_none() {
    // the schema file is missing
    if inv.ci && ran.code == Some(0) {
      return Err(("ci_exit_zero_with_missing_schema".into(), show(&ran)));
    }
    if ran.out.contains("is successful") {
      return Err(("success_reported_without_schema".into(), show(&ran)));
    }
    return Ok(Some((vec![], ran)));
  }
  // a schema that does not compile: the tool stops with an error before looking at any document
  let compiles = match calls::worker_call("parse", "", inv.schema.as_deref().unwrap_or("").as_bytes()) {
    V::Ok => true,
    V::SchemaErr(_) => false,
    _ => return Ok(None),
  };
  if !compiles {
    if ran.out.contains("is successful") {
      return Err(("success_reported_with_schema_that_does_not_compile".into(), show(&ran)));
    }
    if inv.ci && ran.code == Some(0) {
      return Err(("ci_exit_zero_with_schema_that_does_not_compile".into(), show(&ran)));
    }
    return Ok(Some((vec![("<schema does not compile>".to_string(), Exp::Fail)], ran)));
  }
  if no_root_excluded && !has_root_type(inv.schema.as_deref().unwrap_or("")) {
    return Err(("excluded:schema_without_type_rule".into(), String::new()));
  }
  let exp = expected(inv);
  let mut failed_before = false;
  let mut unknown = false;
  for (name, e) in &exp {
    let ok_line = ran.out.contains(&success_line(dir, name));
    let bad_line = ran.out.contains(&failure_line(dir, name));
    match e {
      Exp::Unknown(_) => {
        unknown = true;
        break;
      }
      Exp::Ok => {
        if bad_line {
          return Err((format!("failure_reported_for_valid_document:{}", route_of(inv, name)), format!("the library accepts {} but the tool reports a failure; {}", name, show(&ran))));
        }
        // with --ci the tool stops at the first failure; later documents are not processed
        if !ok_line && !(inv.ci && failed_before) {
          return Err((format!("no_success_report_for_valid_document:{}", route_of(inv, name)), format!("the library accepts {} but the tool does not report success; {}", name, show(&ran))));
        }
      }
      Exp::Fail => {
        if ok_line {
          return Err((format!("success_reported_for_invalid_document:{}", route_of(inv, name)), format!("the library rejects {} but the tool reports success; {}", name, show(&ran))));
        }
        if !bad_line && !(inv.ci && failed_before) && !ran.out.contains("Error:") {
          return Err((format!("no_failure_report_for_invalid_document:{}", route_of(inv, name)), format!("the library rejects {} but the tool reports nothing for it; {}", name, show(&ran))));
        }
        failed_before = true;
      }
      Exp::Missing => {
        if ok_line {
          return Err(("success_reported_for_missing_file".into(), show(&ran)));
        }
        if !ran.out.contains(&missing_line(dir, name)) && !(inv.ci && failed_before) {
          return Err(("missing_file_not_reported".into(), format!("{} does not exist; {}", name, show(&ran))));
        }
        failed_before = true;
      }
    }
  }
  if inv.ci && !unknown {
    let want_nonzero = failed_before;
    let got_nonzero = ran.code != Some(0);
    if want_nonzero != got_nonzero {
      return Err((
        if want_nonzero { "ci_exit_zero_despite_failure".to_string() } else { "ci_exit_nonzero_without_failure".to_string() },
        format!("library decisions {:?}; {}", exp, show(&ran)),
      ));
    }
  }
  if unknown {
    return Ok(None);
  }
  Ok(Some((exp, ran)))
}

fn route_of(inv: &Inv, name: &str) -> String {
  if name == "<stdin>" {
    let utf8 = inv.stdin.as_ref().map(|b| std::str::from_utf8(b).is_ok()).unwrap_or(true);
    return format!("stdin_{}{}", if utf8 { "json" } else { "cbor" }, if inv.feats.is_some() { "+features" } else { "" });
  }
  let r = inv.docs.iter().find(|d| d.name == name).map(|d| format!("{:?}", d.route).to_lowercase()).unwrap_or_default();
  format!("{}{}", r, if inv.feats.is_some() { "+features" } else { "" })
}

// ---------------------------------------------------------------------------------------
// generators
// ---------------------------------------------------------------------------------------

struct FeatFam {
  schema: &'static str,
  json: &'static [&'static str],
}

const FEATURE_FAMILIES: &[FeatFam] = &[
  FeatFam { schema: "root = { a: int, ? b: tstr .feature \"beta\" }\n", json: &["{\"a\":1}", "{\"a\":1,\"b\":\"x\"}", "{\"a\":\"no\"}", "{\"a\":1,\"b\":2}"] },
  FeatFam { schema: "root = [ * item ]\nitem = int / (tstr .feature \"strings\")\n", json: &["[1,2]", "[1,\"x\"]", "[true]", "[]"] },
  FeatFam { schema: "root = { kind: \"v1\" / (\"v2\" .feature \"v2\") , ? n : uint .feature \"beta\" }\n", json: &["{\"kind\":\"v1\"}", "{\"kind\":\"v2\"}", "{\"kind\":\"v3\"}", "{\"kind\":\"v1\",\"n\":3}"] },
  FeatFam { schema: "root = tstr .feature \"strings\" / uint\n", json: &["\"s\"", "3", "-1", "null"] },
];
const FEATURE_LISTS: &[&[&str]] = &[&["beta"], &["strings"], &["v2"], &["beta", "strings", "v2"], &["other"], &["v2", "beta"]];

const CSV_SCHEMAS: &[&str] = &[
  "csv = [ * [ tstr , uint ] ]\n",
  "csv = [ ? header , * record ]\nheader = [ + tstr ]\nrecord = [ tstr , int , ? float ]\n",
  "csv = [ * [ * ( tstr / number ) ] ]\n",
  "csv = [ * [ tstr , uint .feature \"nums\" ] ]\n",
];
const CSV_DOCS: &[&str] = &["a,1\nb,2\n", "name,count\na,1\n", "a,x\n", "", "a,1,2.5\n", "\"q,1\",7\r\n", "a,-1\n"];

fn json_of(v: &CVal) -> Vec<u8> {
  jsonw::to_json(v).into_bytes()
}

struct C18Opts {
  sem: GenOpts,
  /// open finding C18-F1
  schemas_without_type_rule: bool,
}

fn gen_inv(t: &mut Tape, gopts: &C18Opts) -> Inv {
  let mut docs: Vec<Doc> = vec![];
  let mut stdin = None;
  let mut feats: Option<Vec<String>> = None;
  let schema;
  let fam = t.weighted(&[45, 25, 30]);
  match fam {
    0 => {
      // generated schema with valid / near-miss / unrelated documents for the JSON and CBOR routes
      let cbor_mode = t.flag();
      let case = gen_case(t, &gopts.sem, if cbor_mode { Mode::Cbor } else { Mode::Json }, 5);
      schema = case.text.clone();
      for (i, (v, _kind)) in case.docs.iter().enumerate() {
        let as_json = jsonw::is_json_model(v) && t.flag();
        let bytes = if as_json { json_of(v) } else { cbor::encode(v) };
        match t.weighted(&[70, 20, 10]) {
          0 => docs.push(Doc { route: if as_json { Route::Json } else { Route::Cbor }, name: format!("d{}.{}", i, if as_json { "json" } else { "cbor" }), bytes: Some(bytes) }),
          1 => {
            if stdin.is_none() {
              stdin = Some(bytes)
            }
          }
          _ => {}
        }
      }
      if t.chance(1, 5) {
        feats = Some(FEATURE_LISTS[t.below(FEATURE_LISTS.len())].iter().map(|s| s.to_string()).collect());
      }
    }
    1 => {
      // .feature families: the decision depends on the feature list
      let f = &FEATURE_FAMILIES[t.below(FEATURE_FAMILIES.len())];
      schema = f.schema.to_string();
      let n = 1 + t.below(3);
      for i in 0..n {
        let j = f.json[t.below(f.json.len())];
        let v: serde_json::Value = serde_json::from_str(j).unwrap();
        let cv = from_serde(&v);
        match t.below(4) {
          0 => docs.push(Doc { route: Route::Json, name: format!("f{}.json", i), bytes: Some(j.as_bytes().to_vec()) }),
          1 => docs.push(Doc { route: Route::Cbor, name: format!("f{}.cbor", i), bytes: Some(cbor::encode(&cv)) }),
          2 => {
            if stdin.is_none() {
              stdin = Some(j.as_bytes().to_vec())
            }
          }
          _ => {
            if stdin.is_none() {
              // CBOR on stdin is only recognised when the bytes are not UTF-8: wrap in an array with a 0xf6
              let b = cbor::encode(&cv);
              if std::str::from_utf8(&b).is_err() {
                stdin = Some(b)
              } else {
                docs.push(Doc { route: Route::Cbor, name: format!("f{}.cbor", i), bytes: Some(b) })
              }
            }
          }
        }
      }
      if !t.chance(1, 4) {
        feats = Some(FEATURE_LISTS[t.below(FEATURE_LISTS.len())].iter().map(|s| s.to_string()).collect());
      }
    }
    _ => {
      schema = CSV_SCHEMAS[t.below(CSV_SCHEMAS.len())].to_string();
      let n = 1 + t.below(2);
      for i in 0..n {
        docs.push(Doc { route: Route::Csv, name: format!("t{}.csv", i), bytes: Some(CSV_DOCS[t.below(CSV_DOCS.len())].as_bytes().to_vec()) });
      }
      if t.chance(1, 3) {
        docs.push(Doc { route: Route::Json, name: "rows.json".into(), bytes: Some(b"[[\"a\",1]]".to_vec()) });
      }
      if t.chance(1, 3) {
        feats = Some(vec!["nums".to_string()]);
      }
    }
  }
  if docs.is_empty() && stdin.is_none() {
    docs.push(Doc { route: Route::Json, name: "only.json".into(), bytes: Some(b"null".to_vec()) });
  }
  // a missing file now and then
  if t.chance(1, 8) && !docs.is_empty() {
    let k = t.below(docs.len());
    docs[k].bytes = None;
  }
  // rules in front of the root that must not be taken for it: a generic type rule, a group rule
  let schema = match t.below(8) {
    0 => format!("leading-generic<t, v> = {{ t => v }}\n{}", schema),
    1 => format!("leading-group = ( zz: int )\n{}", schema),
    2 => format!("leading-group = ( zz: int )\nleading-generic<t> = [ * t ]\n{}", schema),
    _ => schema,
  };
  // a broken schema now and then
  let schema = match t.below(20) {
    0 => None,
    1 => Some(format!("{}\n= broken (", schema)),
    2 if gopts.schemas_without_type_rule => Some("only-a-group = ( a: int )\n".to_string()),
    _ => Some(schema),
  };
  Inv { schema, docs, stdin, ci: t.flag(), feats, csv_header: t.chance(1, 3), repeat_flags: t.flag() }
}

fn from_serde(v: &serde_json::Value) -> CVal {
  match v {
    serde_json::Value::Null => CVal::null(),
    serde_json::Value::Bool(b) => CVal::bool(*b),
    serde_json::Value::Number(n) => {
      if let Some(i) = n.as_i64() {
        CVal::Int(i as i128)
      } else if let Some(u) = n.as_u64() {
        CVal::Int(u as i128)
      } else {
        CVal::f(n.as_f64().unwrap())
      }
    }
    serde_json::Value::String(s) => CVal::text(s),
    serde_json::Value::Array(a) => CVal::Array(a.iter().map(from_serde).collect()),
    serde_json::Value::Object(o) => CVal::Map(o.iter().map(|(k, v)| (CVal::text(k), from_serde(v))).collect()),
  }
}

fn excluded(ctx: &Ctx, sig: &str, st: &mut Stats) -> bool {
  for name in ctx.exclusions() {
    if let Some(p) = name.strip_prefix("c18:") {
      if sig.starts_with(p) {
        st.exclude(&name);
        return true;
      }
    }
  }
  false
}

pub fn replay(_ctx: &Ctx, case: &J) -> Result<(), String> {
  calls::set_isolated(true, 10_000);
  if case["check"] == "compile_cddl" {
    let text = case["text"].as_str().ok_or("no text")?;
    return compile_cddl_case(text, case["ci"].as_bool().unwrap_or(false), &scratch()).map(|_| ()).map_err(|(l, m)| format!("[{}] {}", l, m));
  }
  let inv = Inv::from_json(&case["invocation"]).ok_or("bad invocation")?;
  match compare(&inv, &scratch(), false) {
    Ok(_) => Ok(()),
    Err((law, msg)) => Err(format!("[{}] {}", law, msg)),
  }
}

fn compile_cddl_case(text: &str, ci: bool, dir: &Path) -> Result<Option<bool>, (String, String)> {
  let p = path_of(dir, "compile.cddl");
  std::fs::write(&p, text).expect("write");
  let mut argv: Vec<String> = vec![];
  if ci {
    argv.push("--ci".into());
  }
  argv.extend(["compile-cddl".to_string(), "--cddl".to_string(), p.display().to_string()]);
  let (of, so, se) = out_stdio(dir);
  let child = Command::new(bin()).args(&argv).stdin(Stdio::null()).stdout(so).stderr(se).spawn().expect("spawn cddl");
  let (code, out, timed_out) = wait_with_timeout(child, None, 20, &of);
  if timed_out {
    return Ok(None);
  }
  let lib = match calls::worker_call("parse", "", text.as_bytes()) {
    V::Ok => true,
    V::SchemaErr(_) => false,
    _ => return Ok(None),
  };
  let cli_ok = code == Some(0) && out.contains("is conformant");
  if lib != cli_ok {
    return Err((
      if lib { "compile_cddl_fails_on_accepted_text".into() } else { "compile_cddl_succeeds_on_rejected_text".into() },
      format!("parser accepts: {} ; tool exit {:?} output {:?} ; text={:?}", lib, code, out.chars().take(600).collect::<String>(), text),
    ));
  }
  Ok(Some(lib))
}

pub fn run(ctx: &Ctx) {
  ctx.set_rule(
    "cases: invocations of the built `cddl` binary (target/cli/release/cddl, rebuilt from /repo by run.sh): `validate` with a \
     schema file, 0-5 documents spread over --json / --cbor / --csv (comma list or repeated flag) and --stdin, with / \
     without --ci, --features, --csv-header; schemas from (a) the semantic generator with valid / near-miss / unrelated \
     documents, (b) four `.feature` families whose verdict depends on the feature list, (c) CSV schemas; now and then a \
     missing document, a missing schema file, a schema that does not parse, a schema without a type rule. Oracle: the \
     library is called in an isolated worker with the same schema text, bytes, feature list and header flag \
     (stdin: JSON when the bytes are UTF-8, else CBOR - the documented sniffing rule); the tool must print 'Validation \
     of <path> is successful' exactly for the documents the library accepts (with --ci: up to the first failure), and \
     with --ci exit non-zero exactly when a document fails, is missing or the schema does not compile. `compile-cddl` \
     on generated and mutated texts must succeed exactly when cddl_from_str accepts. Non-trivial: an invocation with at \
     least two documents or with features / stdin, on which the library rejects at least one and accepts at least one \
     document; distinct by invocation.",
  );
  ctx.assume("stdin bytes that are valid UTF-8 are a JSON document by the tool's documented rule; CBOR documents that happen to be UTF-8 are not asserted on stdin");
  if !bin().exists() {
    ctx.set_inconclusive(&format!("the cddl binary {} was not built", bin().display()));
    return;
  }
  calls::set_isolated(true, 10_000);
  // every shrink step costs a process start (about 150 per second on this machine, all threads together)
  if std::env::var("VERIF_MAX_SHRINK").is_err() {
    std::env::set_var("VERIF_MAX_SHRINK", "120");
  }
  let n = ctx.tier.pick(2_400, 100_000);
  let mut sem = GenOpts::default();
  sem.cbor = true;
  let gopts = C18Opts { sem, schemas_without_type_rule: !ctx.excl("schema_without_type_rule") };
  search(ctx, "validate", n, 400, |t: &mut Tape, st: &mut Stats| {
    let inv = gen_inv(t, &gopts);
    st.eval();
    let dir = scratch();
    match compare(&inv, &dir, !gopts.schemas_without_type_rule) {
      Ok(None) => {
        st.count("inconclusive(library call or tool did not finish)");
        Ok(())
      }
      Ok(Some((exp, _ran))) => {
        let acc = exp.iter().filter(|(_, e)| *e == Exp::Ok).count();
        let rej = exp.iter().filter(|(_, e)| matches!(e, Exp::Fail | Exp::Missing)).count();
        st.count(if inv.ci { "ci" } else { "no_ci" });
        if inv.feats.is_some() {
          st.count("with_features");
        }
        if inv.stdin.is_some() {
          st.count(if std::str::from_utf8(inv.stdin.as_ref().unwrap()).is_ok() { "stdin_json" } else { "stdin_cbor" });
        }
        for d in &inv.docs {
          st.count(&format!("route_{:?}", d.route));
        }
        if inv.schema.is_none() {
          st.count("schema_file_missing");
        }
        if acc > 0 && rej > 0 && (exp.len() >= 2) && st.nontrivial(&inv.to_json().to_string()) {
          st.sample(&inv.to_json().to_string(), || json!({"invocation": inv.to_json(), "library": exp.iter().map(|(n, e)| format!("{}: {:?}", n, e)).collect::<Vec<_>>()}));
        }
        Ok(())
      }
      Err((law, msg)) => {
        if let Some(x) = law.strip_prefix("excluded:") {
          st.exclude(x);
          return Ok(());
        }
        if excluded(ctx, &law, st) {
          return Ok(());
        }
        Err(Fail::new(format!("[{}] {}", law, msg), json!({"check": "validate", "law": law, "invocation": inv.to_json()})))
      }
    }
  });

  let sopts = SynOpts::default();
  search(ctx, "compile_cddl", n / 2, 300, |t: &mut Tape, st: &mut Stats| {
    let s = SynGen::new(t, &sopts).schema();
    let mut tr = TapeTrivia::new(t, true);
    let mut text = render_with(&s, &mut tr);
    if t.chance(1, 3) {
      // one random edit: mostly rejected afterwards
      let idx: Vec<usize> = text.char_indices().map(|(i, _)| i).collect();
      if !idx.is_empty() {
        let at = idx[t.below(idx.len())];
        match t.below(3) {
          0 => text.truncate(at),
          1 => text.insert_str(at, *t.pick(&["=", "(", "]", "\"", "//", "#6.", ","])),
          _ => {
            let l = text[at..].chars().next().unwrap().len_utf8();
            text.replace_range(at..at + l, "");
          }
        }
      }
    }
    let ci = t.flag();
    st.eval();
    match compile_cddl_case(&text, ci, &scratch()) {
      Ok(None) => {
        st.count("inconclusive");
        Ok(())
      }
      Ok(Some(acc)) => {
        st.count(if acc { "accepted" } else { "rejected" });
        if st.nontrivial(&text) {
          st.sample(&text, || json!({"text": text, "accepted": acc, "ci": ci}));
        }
        Ok(())
      }
      Err((law, msg)) => Err(Fail::new(format!("[{}] {}", law, msg), json!({"check": "compile_cddl", "law": law, "text": text, "ci": ci}))),
    }
  });
  // scratch directories of this process
  let exe = std::env::current_exe().expect("current_exe");
  let base = exe.parent().unwrap().parent().unwrap().parent().unwrap().join("c18");
  if let Ok(rd) = std::fs::read_dir(&base) {
    for e in rd.flatten() {
      if e.file_name().to_string_lossy().starts_with(&format!("{}_", std::process::id())) {
        let _ = std::fs::remove_dir_all(e.path());
      }
    }
  }
}
