//! C09 — type operators, occurrences and prelude names obey their defining identities.
use crate::semcheck::{survey_add, survey_dump, survey_on};
use vcore::calls::{self, V};
use vcore::cbor::{self, CVal};
use vcore::cmodel::*;
use vcore::jsonw;
use vcore::sample::{near_miss, Sampler};
use vcore::semgen::{GenOpts, SemGen};
use vcore::{json, search, Ctx, Fail, Stats, Tape, J};

#[derive(Clone, Copy, PartialEq, Debug)]
pub enum Val {
  Json,
  Cbor,
}

/// Some(accepts) or None when the call crashed / hung (tallied, not judged here)
pub fn acc(v: Val, schema: &str, doc: &CVal) -> (Option<bool>, V) {
  let r = match v {
    Val::Json => calls::validate_json(schema, &jsonw::to_json(doc)),
    Val::Cbor => calls::validate_cbor(schema, &cbor::encode(doc)),
  };
  match r {
    V::Abort(_) | V::Hang | V::Panic(_) => (None, r),
    _ => (Some(r.accepts()), r),
  }
}

fn name2(n: &str) -> Ty2 {
  Ty2::Name { name: n.to_string(), args: vec![] }
}

fn t1_as_t2(t: &Ty1) -> Ty2 {
  if t.op.is_none() {
    t.t2.clone()
  } else {
    Ty2::Paren(Ty(vec![t.clone()]))
  }
}

/// wrap a root type expression into one of the contexts; returns (root type, extra rules, document wrapper id)
fn in_context(ctxk: usize, t: Ty) -> (Ty, Vec<RuleM>) {
  match ctxk {
    0 => (t, vec![]),
    1 => (Ty::one(Ty2::Arr(Grp(vec![vec![Ent { occ: None, kind: EntKind::Val { key: None, ty: paren_if_needed(t) } }]]))), vec![]),
    2 => (
      Ty::one(Ty2::Map(Grp(vec![vec![Ent { occ: None, kind: EntKind::Val { key: Some(Key::Bare("v".into())), ty: t } }]]))),
      vec![],
    ),
    _ => {
      // generic argument: idt<X> with idt<T> = T ; a type1 argument, so a choice goes into parentheses
      let arg = if t.0.len() == 1 { t.0[0].clone() } else { Ty1::plain(Ty2::Paren(t)) };
      (
        Ty::one(Ty2::Name { name: "idt".into(), args: vec![arg] }),
        vec![RuleM { name: "idt".into(), params: vec!["X".into()], alt: false, body: Body::Ty(Ty::name("X")) }],
      )
    }
  }
}

fn paren_if_needed(t: Ty) -> Ty {
  // a key-less array entry that starts with '(' would read as an inline group
  if matches!(t.0[0].t2, Ty2::Paren(_)) {
    Ty::one(Ty2::Paren(t))
  } else {
    t
  }
}

fn wrap_doc(ctxk: usize, d: &CVal) -> CVal {
  match ctxk {
    1 => CVal::Array(vec![d.clone()]),
    2 => CVal::Map(vec![(CVal::text("v"), d.clone())]),
    _ => d.clone(),
  }
}

fn schema_text(root: Ty, extra: &[RuleM], aux: &[RuleM]) -> String {
  let mut rules = vec![RuleM { name: "root".into(), params: vec![], alt: false, body: Body::Ty(root) }];
  rules.extend(aux.iter().cloned());
  rules.extend(extra.iter().cloned());
  render(&Schema(rules))
}

pub struct Identity {
  pub name: &'static str,
  /// schema texts to evaluate
  pub schemas: Vec<String>,
  /// the relation over the acceptance booleans (same order as `schemas`)
  pub holds: fn(&[bool]) -> bool,
  pub relation: &'static str,
}

fn b_or(v: &[bool]) -> bool {
  v[0] == v[1] && v[0] == (v[2] || v[3])
}
fn b_and(v: &[bool]) -> bool {
  v[0] == v[1] && v[0] == (v[2] && v[3])
}
fn b_ne(v: &[bool]) -> bool {
  v[0] == (v[1] && !v[2])
}
fn b_range(v: &[bool]) -> bool {
  // [incl, excl, upper]: the two differ only at the upper bound, which the exclusive range does not admit
  v[0] == (v[1] || v[2]) && (!v[1] || v[0]) && !(v[1] && v[2])
}
fn b_eq2(v: &[bool]) -> bool {
  v[0] == v[1]
}

pub fn replay(_ctx: &Ctx, case: &J) -> Result<(), String> {
  let val = if case["validator"].as_str() == Some("cbor") { Val::Cbor } else { Val::Json };
  let schemas: Vec<String> = case["schemas"].as_array().ok_or("no schemas")?.iter().filter_map(|x| x.as_str().map(|s| s.to_string())).collect();
  let rel = case["identity"].as_str().unwrap_or("");
  let holds: fn(&[bool]) -> bool = match rel {
    "choice" => b_or,
    "and_within" => b_and,
    "ne_eq" => b_ne,
    "range" => b_range,
    _ => b_eq2,
  };
  let mut bs = vec![];
  for s in &schemas {
    let r = match val {
      Val::Json => calls::validate_json_local(s, case["json"].as_str().unwrap_or(""), None),
      Val::Cbor => calls::validate_cbor_local(s, &cbor::unhex(case["cbor"].as_str().unwrap_or("")), None),
    };
    bs.push(r.accepts());
  }
  if holds(&bs) {
    Ok(())
  } else {
    Err(format!("identity {} broken: verdicts {:?}", rel, bs))
  }
}

fn eval_identity(
  check: &str,
  id: &Identity,
  kind: &'static str,
  val: Val,
  doc: &CVal,
  ctxk: usize,
  st: &mut Stats,
  excl: &dyn Fn(&Identity, &str) -> Option<&'static str>,
) -> Result<(), Fail> {
  st.eval();
  let mut bs = vec![];
  let mut briefs = vec![];
  for s in &id.schemas {
    let (b, r) = acc(val, s, doc);
    match b {
      Some(b) => {
        bs.push(b);
        briefs.push(r.brief());
      }
      None => {
        st.crash(&format!("{}:{:?}", r.class(), val));
        return Ok(());
      }
    }
    if matches!(r, V::SchemaErr(_)) {
      st.count("schema_rejected(skipped)");
      return Ok(());
    }
  }
  st.count(&format!("identity:{}", kind));
  st.count(&format!("context:{}", ["top", "array_element", "map_value", "generic_argument"][ctxk]));
  st.count(&format!("validator:{:?}", val));
  if (id.holds)(&bs) {
    if bs.iter().any(|b| *b) {
      st.count("some_side_accepts");
    }
    let key = (&id.schemas[0], doc.diag(), val == Val::Json);
    if st.nontrivial(&key) {
      st.sample(&key, || json!({"identity": kind, "relation": id.relation, "validator": format!("{:?}", val), "schemas": id.schemas, "document": doc.diag(), "verdicts": bs}));
    }
    return Ok(());
  }
  if let Some(n) = excl(id, kind) {
    st.exclude(n);
    return Ok(());
  }
  if survey_on() {
    survey_add(
      &format!("{} {:?} {:?}", kind, val, bs),
      &V::OtherErr(briefs.join(" || ")),
      format!("{:?} doc {}", id.schemas, doc.diag()),
    );
    return Ok(());
  }
  Err(Fail::new(
    format!(
      "identity '{}' ({}) broken for the {:?} validator on document {}: schemas {:?} give verdicts {:?} ({})",
      kind,
      id.relation,
      val,
      doc.diag(),
      id.schemas,
      bs,
      briefs.join(" || ")
    ),
    json!({"check": check, "identity": kind, "validator": if val == Val::Json { "json" } else { "cbor" }, "schemas": id.schemas,
           "json": jsonw::to_json(doc), "cbor": cbor::hex(&cbor::encode(doc)), "document": doc.diag()}),
  ))
}

pub fn gen_opts(ctx: &Ctx, cbor: bool) -> GenOpts {
  let mut o = if cbor { crate::c02::gen_opts(ctx) } else { crate::c01::gen_opts(ctx) };
  o.recursion = false;
  o.max_rules = 4;
  o.depth = 2;
  o.and_within = false;
  o
}

pub fn run(ctx: &Ctx) {
  ctx.set_rule(
    "cases: operand types A, B, T (scalars and composites over generated auxiliary rules), literal v, bounds l<u, entry x; \
     each identity is instantiated in one of four contexts (top level, array element, map value, generic argument id<X>) \
     and evaluated by one validator (JSON or CBOR) on a document sampled from / near / unrelated to the operands. \
     Identities (relations between the acceptance booleans of separate runs): A/B = B/A = A or B; A .and B = A .within B = \
     A and B; T .ne v = T and not (T .eq v); l..u = l...u or u, l...u implies l..u; ? x = 0*1 x, * x = 0* x, + x = 1* x \
     (arrays and maps); prelude name = its Appendix D definition. Non-trivial: distinct (first schema, document, validator).",
  );
  ctx.assume("validator calls are isolated in worker processes; crashed / hung calls are tallied and the identity is skipped (C05 judges them)");
  calls::set_isolated(true, 10_000);
  let x_ctl = ctx.excl("control_target_rule_with_increments");
  let x_map = ctx.excl("and_within_map_operands");
  let excl = move |id: &Identity, kind: &str| -> Option<&'static str> {
    if kind == "and_within" {
      // the first line is `root = <A> .and <B>` (possibly inside a context)
      let first = id.schemas[0].lines().next().unwrap_or("");
      // map operands written out or reached through (possibly parenthesised) rule names
      let map_rules: Vec<&str> = id.schemas[0].lines().skip(1).filter(|l| l.contains('{')).filter_map(|l| l.split_whitespace().next()).collect();
      let named_maps = first.split(|c: char| !(c.is_alphanumeric() || c == '-' || c == '_' || c == '.' || c == '@' || c == '$')).filter(|w| map_rules.contains(w)).count();
      if x_map && first.matches('{').count() + named_maps >= 2 {
        return Some("and_within_map_operands");
      }
      if x_ctl {
        // an operand that is the name of a (non-prelude) rule
        let names: Vec<&str> = id.schemas[0].lines().skip(1).filter_map(|l| l.split_whitespace().next()).collect();
        let toks: Vec<&str> = first.split_whitespace().collect();
        for (i, t) in toks.iter().enumerate() {
          if (*t == ".and" || *t == ".within") && i > 0 {
            if names.contains(&toks[i - 1]) || toks.get(i + 1).map(|x| names.contains(x)).unwrap_or(false) {
              return Some("control_target_rule_with_increments");
            }
          }
        }
      }
    }
    None
  };
  let n = ctx.tier.pick(150_000u64, 2_000_000u64);
  for (vi, val) in [Val::Json, Val::Cbor].into_iter().enumerate() {
    let o = gen_opts(ctx, val == Val::Cbor);
    let name = if vi == 0 { "identities_json" } else { "identities_cbor" };
    search(ctx, name, n, 420, |t: &mut Tape, st: &mut Stats| {
      let mut g = SemGen::new(t, &o);
      g.operands_wanted = 3;
      let s = g.schema();
      let ops = g.operands.clone();
      let aux: Vec<RuleM> = s.0.iter().filter(|r| r.name != "root").cloned().collect();
      let (a, b) = (ops[0].clone(), ops[1].clone());
      let ctxk = t.below(4);
      let which = t.below(6);
      let json = val == Val::Json;
      // the identity
      let (kind, roots, holds, relation): (&'static str, Vec<Ty>, fn(&[bool]) -> bool, &'static str) = match which {
        0 => (
          "choice",
          vec![Ty(vec![a.clone(), b.clone()]), Ty(vec![b.clone(), a.clone()]), Ty(vec![a.clone()]), Ty(vec![b.clone()])],
          b_or,
          "acc(A/B) = acc(B/A) = acc(A) or acc(B)",
        ),
        1 => {
          let (a2, b2) = (t1_as_t2(&a), t1_as_t2(&b));
          (
            "and_within",
            vec![
              Ty(vec![Ty1 { t2: a2.clone(), op: Some((Op::Ctl("and".into()), b2.clone())) }]),
              Ty(vec![Ty1 { t2: a2, op: Some((Op::Ctl("within".into()), b2)) }]),
              Ty(vec![a.clone()]),
              Ty(vec![b.clone()]),
            ],
            b_and,
            "acc(A .and B) = acc(A .within B) = acc(A) and acc(B)",
          )
        }
        2 => {
          // T .ne v : T a text / numeric prelude name, v a literal of its kind
          let (tn, v) = match t.below(4) {
            0 => ("int", Lit::int(t.range(-3, 12) as i128)),
            1 => ("uint", Lit::int(t.range(0, 12) as i128)),
            2 => ("tstr", Lit::text(*t.pick(vcore::semgen::TEXTS))),
            _ => ("number", Lit::int(t.range(-3, 12) as i128)),
          };
          (
            "ne_eq",
            vec![
              Ty(vec![Ty1 { t2: name2(tn), op: Some((Op::Ctl("ne".into()), Ty2::Lit(v.clone()))) }]),
              Ty::name(tn),
              Ty(vec![Ty1 { t2: name2(tn), op: Some((Op::Ctl("eq".into()), Ty2::Lit(v))) }]),
            ],
            b_ne,
            "acc(T .ne v) = acc(T) and not acc(T .eq v)",
          )
        }
        3 => {
          let (l, u) = if t.chance(1, 4) {
            // boundaries around zero and the sign change
            *t.pick(&[(-3i128, 0i128), (-1, 0), (-1, 1), (0, 1), (-2, -1), (0, 2)])
          } else {
            let l = t.range(-6, 10) as i128;
            (l, l + 1 + t.below(6) as i128)
          };
          let (l, u) = if !json && t.chance(1, 5) { (l - 100000, u + (1i128 << 40)) } else { (l, u) };
          (
            "range",
            vec![
              Ty(vec![Ty1 { t2: Ty2::Lit(Lit::int(l)), op: Some((Op::Range { inclusive: true }, Ty2::Lit(Lit::int(u)))) }]),
              Ty(vec![Ty1 { t2: Ty2::Lit(Lit::int(l)), op: Some((Op::Range { inclusive: false }, Ty2::Lit(Lit::int(u)))) }]),
              Ty(vec![Ty1::plain(Ty2::Lit(Lit::int(u)))]),
            ],
            b_range,
            "acc(l..u) = acc(l...u) or acc(u); acc(l...u) implies acc(l..u); never acc(l...u) and acc(u)",
          )
        }
        4 => {
          // prelude names
          let table: &[(&str, &str)] = &[
            ("int", "uint / nint"),
            ("number", "int / float"),
            ("bool", "false / true"),
            ("text", "tstr"),
            ("nil", "null"),
            ("any", "#"),
          ];
          let cb: &[(&str, &str)] = &[
            ("bytes", "bstr"),
            ("uint", "#0"),
            ("nint", "#1"),
            ("bstr", "#2"),
            ("tstr", "#3"),
            ("true", "#7.21"),
            ("false", "#7.20"),
            ("null", "#7.22"),
            ("int", "#0 / #1"),
          ];
          let (n, d) = if !json && t.flag() { *t.pick(cb) } else { *t.pick(table) };
          let rhs: Ty = Ty(
            d.split(" / ")
              .map(|x| {
                if let Some(rest) = x.strip_prefix('#') {
                  if rest.is_empty() {
                    Ty1::plain(Ty2::Any)
                  } else if let Some((m, k)) = rest.split_once('.') {
                    let kk: u64 = k.parse().unwrap();
                    Ty1::plain(Ty2::Major { mt: m.parse().unwrap(), num: Some(TagNum::Lit(kk, kk.to_string())) })
                  } else {
                    Ty1::plain(Ty2::Major { mt: rest.parse().unwrap(), num: None })
                  }
                } else {
                  Ty1::plain(name2(x))
                }
              })
              .collect(),
          );
          ("prelude", vec![Ty::name(n), rhs], b_eq2, "acc(prelude name) = acc(its Appendix D definition)")
        }
        _ => ("occurrence", vec![], b_eq2, "? x = 0*1 x, * x = 0* x, + x = 1* x"),
      };
      let id: Identity;
      let doc: CVal;
      if kind == "occurrence" {
        // build [pre, OCC x, post] or { OCC key: x, ... } twice
        let in_map = t.flag();
        let pair = match t.below(3) {
          0 => (Occ::Opt, Occ::Range(Some(0), Some(1))),
          1 => (Occ::Star, Occ::Range(Some(0), None)),
          _ => (Occ::Plus, Occ::Range(Some(1), None)),
        };
        let mk = |oc: Occ| -> Ty {
          if in_map {
            let key = if matches!(oc, Occ::Opt | Occ::Range(Some(0), Some(1))) {
              Key::Bare("k".into())
            } else {
              Key::Arrow { t1: Ty1::plain(name2("tstr")), cut: false }
            };
            let mut ents = vec![Ent { occ: Some(oc), kind: EntKind::Val { key: Some(key), ty: Ty(vec![a.clone()]) } }];
            ents.insert(0, Ent { occ: None, kind: EntKind::Val { key: Some(Key::Bare("fixed".into())), ty: Ty(vec![b.clone()]) } });
            Ty::one(Ty2::Map(Grp(vec![ents])))
          } else {
            let x = Ent { occ: Some(oc), kind: EntKind::Val { key: None, ty: paren_if_needed(Ty(vec![a.clone()])) } };
            let post = Ent { occ: None, kind: EntKind::Val { key: None, ty: paren_if_needed(Ty(vec![b.clone()])) } };
            Ty::one(Ty2::Arr(Grp(vec![vec![x, post]])))
          }
        };
        let r1 = mk(pair.0.clone());
        let r2 = mk(pair.1.clone());
        let s1 = schema_text(r1.clone(), &[], &aux);
        let s2 = schema_text(r2, &[], &aux);
        let sch = Schema(std::iter::once(RuleM { name: "root".into(), params: vec![], alt: false, body: Body::Ty(r1) }).chain(aux.iter().cloned()).collect());
        let mut sm = Sampler::new(&sch, t, json);
        let base = sm.root();
        doc = match t.below(4) {
          0 | 1 => base,
          2 => near_miss(t, &base, json).0,
          _ => {
            let mut sm = Sampler::new(&sch, t, json);
            sm.any_value(2)
          }
        };
        id = Identity { name: kind, schemas: vec![s1, s2], holds, relation };
        if json && !jsonw::is_json_model(&doc) {
          return Ok(());
        }
        return eval_identity(name, &id, kind, val, &doc, if in_map { 2 } else { 1 }, st, &excl);
      }
      let mut texts = vec![];
      for r in &roots {
        let (rt, extra) = in_context(ctxk, r.clone());
        texts.push(schema_text(rt, &extra, &aux));
      }
      // document: from the first root (the composite side)
      let sch = Schema(std::iter::once(RuleM { name: "root".into(), params: vec![], alt: false, body: Body::Ty(roots[0].clone()) }).chain(aux.iter().cloned()).collect());
      let mut sm = Sampler::new(&sch, t, json);
      let base = sm.root();
      let inner = match t.below(5) {
        0 | 1 | 2 => base,
        3 => near_miss(t, &base, json).0,
        _ => {
          let mut sm = Sampler::new(&sch, t, json);
          sm.any_value(2)
        }
      };
      doc = wrap_doc(ctxk, &inner);
      if json && !jsonw::is_json_model(&doc) {
        return Ok(());
      }
      if !json && !crate::c02::in_cbor_model(&doc) {
        return Ok(());
      }
      id = Identity { name: kind, schemas: texts, holds, relation };
      eval_identity(name, &id, kind, val, &doc, ctxk, st, &excl)
    });
  }
  if survey_on() {
    survey_dump(ctx);
  }
}
