//! C19 — optional cargo features are orthogonal.
use crate::semcheck::{gen_case, Mode};
use std::cell::RefCell;
use std::collections::{BTreeMap, HashMap};
use std::path::PathBuf;
use std::process::{Command, Stdio};
use vcore::cbor::{self, hex};
use vcore::cmodel::{render_with, TapeTrivia};
use vcore::jsonw;
use vcore::semgen::GenOpts;
use vcore::syngen::{SynGen, SynOpts};
use vcore::{json, search, sweep, Ctx, Fail, Stats, Tape, J};

const FEATS: [&str; 8] = ["ast-span", "ast-comments", "ast-parent", "json", "cbor", "csv-validate", "additional-controls", "freezer"];
const F_SPAN: u8 = 1;
const F_COMMENTS: u8 = 2;
const F_PARENT: u8 = 4;
const F_JSON: u8 = 8;
const F_CBOR: u8 = 16;
const F_CSV: u8 = 32;
const F_CTRL: u8 = 64;
const F_FREEZER: u8 = 128;
const FULL: u8 = 0xff;

fn feature_list(mask: u8) -> String {
  FEATS.iter().enumerate().filter(|(i, _)| mask >> i & 1 == 1).map(|(_, f)| *f).collect::<Vec<_>>().join(",")
}

fn combo_name(mask: u8) -> String {
  let l = feature_list(mask);
  if l.is_empty() {
    "std".into()
  } else {
    format!("std,{}", l)
  }
}

fn verif_dir() -> PathBuf {
  let exe = std::env::current_exe().expect("current_exe");
  exe.parent().unwrap().parent().unwrap().parent().unwrap().parent().unwrap().to_path_buf()
}

/// `cargo check` of the library with one feature combination; Err(first error lines)
fn check_builds(mask: u8) -> Result<(), String> {
  let v = verif_dir();
  let out = Command::new("cargo")
    .args(["check", "--lib", "--offline", "--manifest-path", "/repo/Cargo.toml", "--no-default-features", "--features", &combo_name(mask), "--target-dir"])
    .arg(v.join("target").join("feat_check"))
    .env("CARGO_NET_OFFLINE", "true")
    .output()
    .map_err(|e| format!("cannot run cargo: {}", e))?;
  if out.status.success() {
    Ok(())
  } else {
    let err = String::from_utf8_lossy(&out.stderr);
    let lines: Vec<&str> = err.lines().filter(|l| l.starts_with("error")).take(4).collect();
    Err(lines.join(" | "))
  }
}

/// build the driver against one feature combination; the binary is copied to target/feat/bin/fdriver_<mask>
fn build_driver(mask: u8) -> Result<PathBuf, String> {
  let v = verif_dir();
  let bin_dir = v.join("target").join("feat").join("bin");
  let _ = std::fs::create_dir_all(&bin_dir);
  let mut cmd = Command::new("cargo");
  cmd.args(["build", "--offline", "--no-default-features", "--manifest-path"]).arg(v.join("fdriver").join("Cargo.toml")).arg("--target-dir").arg(v.join("target").join("feat"));
  let fl = feature_list(mask);
  if !fl.is_empty() {
    cmd.args(["--features", &fl]);
  }
  let out = cmd.env("CARGO_NET_OFFLINE", "true").output().map_err(|e| format!("cannot run cargo: {}", e))?;
  if !out.status.success() {
    let err = String::from_utf8_lossy(&out.stderr);
    let lines: Vec<&str> = err.lines().filter(|l| l.starts_with("error")).take(4).collect();
    return Err(lines.join(" | "));
  }
  let dst = bin_dir.join(format!("fdriver_{:02x}", mask));
  std::fs::copy(v.join("target").join("feat").join("debug").join("fdriver"), &dst).map_err(|e| format!("copy driver: {}", e))?;
  Ok(dst)
}

static DRIVERS: std::sync::Mutex<Option<BTreeMap<u8, Result<PathBuf, String>>>> = std::sync::Mutex::new(None);

fn driver_path(mask: u8) -> Result<PathBuf, String> {
  let mut g = DRIVERS.lock().unwrap();
  let m = g.get_or_insert_with(Default::default);
  if let Some(r) = m.get(&mask) {
    return r.clone();
  }
  let r = build_driver(mask);
  m.insert(mask, r.clone());
  r
}

// ---------------------------------------------------------------------------------------
// driver processes (one per combination and thread), line protocol
// ---------------------------------------------------------------------------------------

struct Proc {
  child: std::process::Child,
  stdin: std::process::ChildStdin,
  stdout: std::process::ChildStdout,
  buf: Vec<u8>,
}

thread_local! {
  static PROCS: RefCell<HashMap<u8, Proc>> = RefCell::new(HashMap::new());
}

fn spawn(mask: u8) -> Result<Proc, String> {
  let p = driver_path(mask)?;
  let mut child = Command::new(p).stdin(Stdio::piped()).stdout(Stdio::piped()).stderr(Stdio::null()).spawn().map_err(|e| format!("spawn driver: {}", e))?;
  let stdin = child.stdin.take().unwrap();
  let stdout = child.stdout.take().unwrap();
  Ok(Proc { child, stdin, stdout, buf: vec![] })
}

#[derive(Debug, Clone, PartialEq)]
enum Resp {
  Line(String),
  Died,
  Timeout,
  NoDriver(String),
}

fn ask(mask: u8, req: &J) -> Resp {
  use std::io::{Read, Write};
  use std::os::unix::io::AsRawFd;
  PROCS.with(|cell| {
    let mut map = cell.borrow_mut();
    if !map.contains_key(&mask) {
      match spawn(mask) {
        Ok(p) => {
          map.insert(mask, p);
        }
        Err(e) => return Resp::NoDriver(e),
      }
    }
    let w = map.get_mut(&mask).unwrap();
    let line = req.to_string();
    if w.stdin.write_all(line.as_bytes()).and_then(|_| w.stdin.write_all(b"\n")).and_then(|_| w.stdin.flush()).is_err() {
      let _ = w.child.wait();
      map.remove(&mask);
      return Resp::Died;
    }
    let fd = w.stdout.as_raw_fd();
    let start = std::time::Instant::now();
    let limit_ms = 10_000u64;
    loop {
      if let Some(pos) = w.buf.iter().position(|b| *b == b'\n') {
        let l: Vec<u8> = w.buf.drain(..=pos).collect();
        let s = String::from_utf8_lossy(&l[..l.len() - 1]).to_string();
        return match serde_json::from_str::<J>(&s) {
          Ok(J::String(x)) => Resp::Line(x),
          _ => Resp::Line(s),
        };
      }
      let el = start.elapsed().as_millis() as u64;
      if el >= limit_ms {
        let _ = w.child.kill();
        let _ = w.child.wait();
        map.remove(&mask);
        return Resp::Timeout;
      }
      let mut pfd = libc::pollfd { fd, events: libc::POLLIN, revents: 0 };
      let r = unsafe { libc::poll(&mut pfd, 1, (limit_ms - el).min(1000) as i32) };
      if r > 0 {
        let mut chunk = [0u8; 65536];
        match w.stdout.read(&mut chunk) {
          Ok(0) | Err(_) => {
            let _ = w.child.wait();
            map.remove(&mask);
            return Resp::Died;
          }
          Ok(n) => w.buf.extend_from_slice(&chunk[..n]),
        }
      }
    }
  })
}

// ---------------------------------------------------------------------------------------
// comparison
// ---------------------------------------------------------------------------------------

/// formatted text with comments and all white space removed (comments are the one thing the printers may differ in)
fn strip(text: &str) -> String {
  let mut out = String::new();
  let mut chars = text.chars().peekable();
  let mut quote: Option<char> = None;
  while let Some(c) = chars.next() {
    if let Some(q) = quote {
      out.push(c);
      if c == '\\' {
        if let Some(n) = chars.next() {
          out.push(n);
        }
      } else if c == q {
        quote = None;
      }
      continue;
    }
    match c {
      '"' | '\'' => {
        quote = Some(c);
        out.push(c);
      }
      ';' => {
        for n in chars.by_ref() {
          if n == '\n' {
            break;
          }
        }
      }
      c if c.is_whitespace() => {}
      c => out.push(c),
    }
  }
  out
}

fn has_comment(text: &str) -> bool {
  !vcore::comments::scan(text).is_empty()
}

/// Err((law, message)); Ok(number of combinations that provided the operation)
fn compare(req: &J, masks: &[u8]) -> Result<Option<usize>, (String, String)> {
  let op = req["op"].as_str().unwrap_or("");
  let mut results: Vec<(u8, String)> = vec![];
  for m in masks {
    match ask(*m, req) {
      Resp::Line(l) => {
        if l == "unavailable" {
          continue;
        }
        results.push((*m, l));
      }
      Resp::NoDriver(e) => return Err((format!("does_not_build:{}", combo_name(*m)), e)),
      // a driver that died (stack overflow) or hung: inconclusive for this case
      Resp::Died | Resp::Timeout => return Ok(None),
    }
  }
  if results.len() < 2 {
    return Ok(Some(results.len()));
  }
  let (m0, r0) = &results[0];
  for (m, r) in &results[1..] {
    let same = if op == "format" && has_comment(req["text"].as_str().unwrap_or("")) {
      // "same formatted text up to comments": a build that keeps comments lays the text out differently around
      // them (one entry per line with a trailing comma), so the texts are compared by what they denote
      strip(r) == strip(r0) || {
        let sk = |x: &str| x.strip_prefix("formatted\n").and_then(|t| vcore::calls::with_parsed(t, |c| vcore::skel::skel(c)).ok());
        let (a, b) = (sk(r), sk(r0));
        a.is_some() && a == b
      }
    } else {
      r == r0
    };
    if !same {
      let diff = (m0 ^ m) as u8;
      let differing: Vec<&str> = FEATS.iter().enumerate().filter(|(i, _)| diff >> i & 1 == 1).map(|(_, f)| *f).collect();
      return Err((
        format!("{}_differs:{}", op, differing.join("+")),
        format!("operation {} gives {:?} with [{}] but {:?} with [{}] ; request {}", op, r0.chars().take(400).collect::<String>(), combo_name(*m0), r.chars().take(400).collect::<String>(), combo_name(*m), req),
      ));
    }
  }
  Ok(Some(results.len()))
}

const CSV_SCHEMAS: &[&str] = &["csv = [ * [ tstr , uint ] ]\n", "csv = [ ? header , * record ]\nheader = [ + tstr ]\nrecord = [ tstr , int , ? float ]\n", "csv = [ * [ * ( tstr / number ) ] ]\n"];
const CSV_DOCS: &[&str] = &["a,1\nb,2\n", "name,count\na,1\n", "a,x\n", "", "a,1,2.5\n", "\"q,1\",7\r\n", "a,-1\n"];
const PCRE: &[(&str, &[&str])] = &[
  ("http|https", &["http", "https", "ftp"]),
  ("[a-z]+?", &["abc", "a", "A1"]),
  ("a|ab", &["ab", "a", "b"]),
  ("(foo|foobar)baz", &["foobarbaz", "foobaz", "baz"]),
  ("[0-9]{2,4}", &["12", "12345", "1"]),
];

fn gen_request(t: &mut Tape, masks: &[u8], opts: &Opts) -> J {
  let all_ctrl = masks.iter().all(|m| m & F_CTRL != 0);
  match t.weighted(&[30, 20, 22, 18, 5, 5]) {
    0 | 1 => {
      let mut so = SynOpts::default();
      so.additional_controls = all_ctrl;
      so.freezer_controls = all_ctrl;
      let s = SynGen::new(t, &so).schema();
      let comments = t.chance(1, 3) && opts.comments_in_format_inputs;
      let mut tr = TapeTrivia::new(t, comments);
      tr.crlf = true;
      tr.no_comment_at = opts.banned.clone();
      let mut text = render_with(&s, &mut tr);
      // a second definition of the first rule (must be rejected by every build) and free-standing comments
      if t.chance(1, 6) {
        if let Some(r) = s.0.first() {
          if !r.name.starts_with('$') {
            text.push_str(&format!("\n{} = 1\n", r.name));
          }
        }
      }
      match t.below(6) {
        0 => text.push_str("\n; the end\n"),
        1 => text.insert_str(0, "; the beginning\n\n"),
        _ => {}
      }
      json!({"op": if t.flag() { "parse" } else { "format" }, "text": text})
    }
    2 => {
      let mut g = GenOpts::default();
      g.extras = all_ctrl && g.extras;
      let case = gen_case(t, &g, Mode::Json, 3);
      let (v, _) = &case.docs[t.below(case.docs.len())];
      json!({"op": "json", "text": case.text, "doc": jsonw::to_json(v)})
    }
    3 => {
      let mut g = GenOpts::default();
      g.cbor = true;
      g.extras = all_ctrl && g.extras;
      let case = gen_case(t, &g, Mode::Cbor, 3);
      let (v, _) = &case.docs[t.below(case.docs.len())];
      json!({"op": "cbor", "text": case.text, "doc": hex(&cbor::encode(v))})
    }
    4 => json!({"op": "csv", "text": *t.pick(CSV_SCHEMAS), "doc": *t.pick(CSV_DOCS), "header": if t.flag() { Some(true) } else { None }}),
    _ => {
      // .pcre on whole-string matches and complete non-matches (partial matches: open finding C19-F1)
      let (pat, strs) = PCRE[t.below(PCRE.len())];
      let s = strs[t.below(strs.len())];
      let schema = format!("a = tstr .pcre \"{}\"\n", pat);
      if t.flag() {
        json!({"op": "json", "text": schema, "doc": format!("\"{}\"", s)})
      } else {
        json!({"op": "cbor", "text": schema, "doc": hex(&cbor::encode(&cbor::CVal::text(s)))})
      }
    }
  }
}

struct Opts {
  comments_in_format_inputs: bool,
  banned: Vec<vcore::cmodel::Pos>,
}

fn excluded(ctx: &Ctx, sig: &str, st: &mut Stats) -> bool {
  for name in ctx.exclusions() {
    if let Some(p) = name.strip_prefix("c19:") {
      if sig.starts_with(p) {
        st.exclude(&name);
        return true;
      }
    }
  }
  false
}

fn quick_masks() -> Vec<u8> {
  vec![
    FULL,
    FULL & !F_SPAN,
    FULL & !F_COMMENTS & !F_PARENT,
    FULL & !F_CTRL & !F_FREEZER,
    FULL & !F_FREEZER,
    F_JSON,
    F_CBOR | F_SPAN,
    0,
  ]
}

pub fn replay(_ctx: &Ctx, case: &J) -> Result<(), String> {
  if case["check"] == "build_matrix" {
    let mask = case["mask"].as_u64().ok_or("no mask")? as u8;
    return check_builds(mask).map_err(|e| format!("[does_not_build:{}] {}", combo_name(mask), e));
  }
  let masks: Vec<u8> = case["masks"].as_array().ok_or("no masks")?.iter().filter_map(|m| m.as_u64().map(|x| x as u8)).collect();
  match compare(&case["request"], &masks) {
    Ok(_) => Ok(()),
    Err((law, msg)) => Err(format!("[{}] {}", law, msg)),
  }
}

pub fn run(ctx: &Ctx) {
  ctx.set_rule(
    "configurations: the 2^8 subsets of {ast-span, ast-comments, ast-parent, json, cbor, csv-validate, additional-controls, \
     freezer} on top of std. (1) build_matrix: `cargo check --lib --no-default-features --features <set>` on /repo's tree \
     for a seeded sample of the 256 sets plus all default-minus-one sets and the empty set (quick) or all 256 (thorough); \
     every set must build. (2) behaviour: a driver (fdriver/) is built against 8 (quick) or 20 (thorough) sets and kept \
     running; generated requests - parse (acceptance + skeleton without spans / comments), format, validate JSON / CBOR / \
     CSV with schemas and valid / near-miss documents from the semantic generator, .pcre families - are sent to every \
     driver; all drivers that provide the operation must return the same result (format: identical text, or identical \
     after removing comments and white space when the input has comments). Inputs avoid functionality a compared set \
     lacks: additional control operators only when every compared set has additional-controls. Non-trivial: a request \
     answered by at least 3 feature sets with a result other than 'rejected' / 'schema_error'; distinct by request.",
  );
  let thorough = ctx.tier.name() == "thorough";

  // (1) build matrix
  let mut masks: Vec<u8> = vec![0, FULL];
  for i in 0..8 {
    masks.push(FULL & !(1 << i));
    masks.push(1 << i);
  }
  if thorough {
    masks = (0..=255u8).collect();
  } else {
    // seeded sample
    let mut x = ctx.seed.wrapping_mul(0x9E3779B97F4A7C15) | 1;
    for _ in 0..14 {
      x ^= x << 13;
      x ^= x >> 7;
      x ^= x << 17;
      masks.push((x >> 24) as u8);
    }
  }
  masks.sort();
  masks.dedup();
  let items: Vec<(String, u8)> = masks.iter().map(|m| (combo_name(*m), *m)).collect();
  // cargo serialises on the shared target directory anyway: one thread
  let items: Vec<(String, u8)> = if std::env::var("VERIF_C19_SKIP_MATRIX").is_ok() { vec![] } else { items };
  sweep(ctx, "build_matrix", &items, |(name, mask), st| {
    st.eval();
    match check_builds(*mask) {
      Ok(()) => {
        st.count("builds");
        if st.nontrivial(name) {
          st.sample(name, || json!({"features": name}));
        }
        Ok(())
      }
      Err(e) => {
        let sig = format!("does_not_build:{}", name);
        if excluded(ctx, &sig, st) {
          return Ok(());
        }
        Err(Fail::new(format!("[{}] cargo check fails: {}", sig, e), json!({"check": "build_matrix", "mask": mask, "features": name})))
      }
    }
  });

  // (2) behaviour across feature sets
  let mut bmasks = quick_masks();
  if thorough {
    let mut x = ctx.seed.wrapping_mul(0xD1342543DE82EF95) | 1;
    for _ in 0..12 {
      x ^= x << 13;
      x ^= x >> 7;
      x ^= x << 17;
      bmasks.push((x >> 24) as u8);
    }
    bmasks.dedup();
  }
  for m in &bmasks {
    if let Err(e) = driver_path(*m) {
      let sig = format!("does_not_build:{}", combo_name(*m));
      let mut st = Stats::default();
      if !excluded(ctx, &sig, &mut st) {
        ctx.violation("behaviour", &format!("[{}] the driver does not build: {}", sig, e), json!({"check": "build_matrix", "mask": m, "features": combo_name(*m)}));
      }
    }
  }
  let bmasks: Vec<u8> = bmasks.into_iter().filter(|m| driver_path(*m).is_ok()).collect();
  ctx.set_extra("feature_sets_compared", json!(bmasks.iter().map(|m| combo_name(*m)).collect::<Vec<_>>()));
  let banned: Vec<vcore::cmodel::Pos> = vcore::cmodel::ALL_POS.iter().copied().filter(|p| ctx.excl(&format!("comment_at_{:?}", p))).collect();
  let opts = Opts { comments_in_format_inputs: true, banned };
  let n = ctx.tier.pick(60_000, 1_500_000);
  search(ctx, "behaviour", n, 300, |t: &mut Tape, st: &mut Stats| {
    let req = gen_request(t, &bmasks, &opts);
    st.eval();
    match compare(&req, &bmasks) {
      Ok(None) => {
        st.count("inconclusive(driver died or hung)");
        Ok(())
      }
      Ok(Some(k)) => {
        st.count(&format!("op_{}", req["op"].as_str().unwrap_or("")));
        st.count(&format!("answered_by_{}_sets", k));
        let key = req.to_string();
        if k >= 3 && st.nontrivial(&key) {
          st.sample(&key, || json!({"request": req, "feature_sets_answering": k}));
        }
        Ok(())
      }
      Err((law, msg)) => {
        if excluded(ctx, &law, st) {
          return Ok(());
        }
        Err(Fail::new(format!("[{}] {}", law, msg), json!({"check": "behaviour", "law": law, "request": req, "masks": bmasks})))
      }
    }
  });
}
