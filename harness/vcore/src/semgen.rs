//! Generator of *meaningful* schemas of the core fragment (every reference resolves, recursion only
//! through containers with a terminating alternative), as `cmodel::Schema` values.
use crate::cmodel::*;
use crate::engine::Tape;

#[derive(Clone, Debug)]
pub struct GenOpts {
  /// CBOR-only constructs: bytes, tags, major types, simple values, non-text keys, full int range
  pub cbor: bool,
  /// generic rules and instantiations
  pub generics: bool,
  /// `/=` and `//=` increments, `$socket` / `$$socket` names
  pub increments: bool,
  /// .and / .within
  pub and_within: bool,
  /// ranges with a negative lower and non-negative upper bound (open finding when excluded)
  pub mixed_sign_ranges: bool,
  /// float literals / ranges / float comparisons
  pub floats: bool,
  /// controls (.size .lt .le .gt .ge .eq .ne)
  pub controls: bool,
  /// non-cut literal keys next to tables
  pub noncut_keys: bool,
  pub max_rules: usize,
  pub depth: usize,
  /// names of the rules are taken from this pool (first = root)
  pub maps: bool,
  pub arrays: bool,
  /// `bool .eq true` style controls (target neither text nor numeric)
  pub eq_on_bool: bool,
  /// `//` inside map groups
  pub map_group_choices: bool,
  /// inline groups `( ... )` as map entries
  pub map_inline_groups: bool,
  /// group-rule references as map entries
  pub map_group_refs: bool,
  /// a table (type-domain key) entry that is not the last entry of its group choice
  pub table_not_last: bool,
  /// the same literal key twice in one group choice
  pub dup_literal_keys: bool,
  /// occurrence indicator on an inline group / group reference inside a map
  pub map_group_occ: bool,
  /// `//=` increments of group rules
  pub group_increments: bool,
  /// recursive references (through containers with a zero minimum)
  pub recursion: bool,
  /// the simple value 23 (`undefined`, `#7.23`)
  pub undefined: bool,
  /// `#6` / `#6(...)` without a tag number
  pub tag_without_number: bool,
  /// shared-feature extras of C04: unwrap, group-to-choice, sockets, .regexp, .default, .cat, .plus
  pub extras: bool,
  pub unwrap: bool,
  pub choice_from_group: bool,
  pub sockets: bool,
  pub regexp: bool,
  pub default_ctl: bool,
  pub cat_plus: bool,
  /// `g<g<x>>`: a generic rule instantiated inside its own argument list
  pub generic_self_nesting: bool,
  /// recursion that passes through a generic rule (open finding: stack overflow)
  pub generic_recursion: bool,
  /// `&name` (group-to-choice over a named group rule)
  pub choice_from_named_group: bool,
  /// a generic parameter used inside the argument list of another instantiation (`a<T> = b<T>`)
  pub generic_param_forwarding: bool,
  /// .iregexp / .pcre next to .regexp over the same pattern pool (C14: results must not depend on other calls)
  pub text_ctl_variants: bool,
  /// a group rule whose body is nothing but a reference to another group rule (open finding C08-F2 when off)
  pub group_alias_bodies: bool,
}

impl Default for GenOpts {
  fn default() -> Self {
    GenOpts {
      cbor: false,
      generics: false,
      increments: true,
      and_within: false,
      mixed_sign_ranges: true,
      floats: true,
      controls: true,
      noncut_keys: true,
      max_rules: 5,
      depth: 3,
      maps: true,
      arrays: true,
      eq_on_bool: true,
      map_group_choices: true,
      map_inline_groups: true,
      map_group_refs: true,
      table_not_last: true,
      dup_literal_keys: true,
      map_group_occ: true,
      group_increments: true,
      recursion: true,
      undefined: true,
      tag_without_number: true,
      extras: false,
      unwrap: true,
      choice_from_group: true,
      sockets: true,
      regexp: true,
      default_ctl: true,
      cat_plus: true,
      generic_self_nesting: true,
      generic_recursion: true,
      choice_from_named_group: true,
      generic_param_forwarding: true,
      text_ctl_variants: false,
      group_alias_bodies: true,
    }
  }
}

pub const TYPE_RULE_NAMES: &[&str] = &["root", "item", "node", "leaf", "alt", "rec-t", "val.x", "thing"];
pub const GROUP_RULE_NAMES: &[&str] = &["grp", "pair", "hdr", "g-two", "tail"];
pub const KEYS: &[&str] = &["a", "b", "c", "id", "name", "k-1", "x"];
pub const TEXTS: &[&str] = &["", "a", "b", "abc", "key", "hello", "caf\u{e9}", "\u{4e16}\u{754c}"];

#[derive(Clone, Debug)]
struct Plan {
  name: String,
  is_group: bool,
  params: Vec<String>,
}

pub struct SemGen<'a, 'b, 'o> {
  pub t: &'a mut Tape<'b>,
  pub o: &'o GenOpts,
  plan: Vec<Plan>,
  /// index of the rule being generated
  cur: usize,
  /// generic parameters in scope
  params: Vec<String>,
  /// inside a container entry with a zero minimum (recursion allowed)
  can_recurse: bool,
  /// generic rules whose argument list is being generated (a rule instantiated inside its own arguments
  /// overflows the stack of both validators: open finding C05-F2)
  in_args_of: Vec<usize>,
  no_socket_refs: bool,
  /// number of extra operand expressions to generate in the context of the root rule (C09)
  pub operands_wanted: usize,
  pub operands: Vec<Ty1>,
}

fn name_ty2(n: &str) -> Ty2 {
  Ty2::Name { name: n.to_string(), args: vec![] }
}

impl<'a, 'b, 'o> SemGen<'a, 'b, 'o> {
  pub fn new(t: &'a mut Tape<'b>, o: &'o GenOpts) -> Self {
    SemGen { t, o, plan: vec![], cur: 0, params: vec![], can_recurse: false, in_args_of: vec![], no_socket_refs: false, operands_wanted: 0, operands: vec![] }
  }

  pub fn schema(&mut self) -> Schema {
    let n = 1 + self.t.weighted(&[25, 25, 20, 15, 15]).min(self.o.max_rules - 1);
    let mut ti = 0;
    let mut gi = 0;
    self.plan.clear();
    for i in 0..n {
      let is_group = i > 0 && self.t.chance(3, 10);
      let name = if is_group {
        gi += 1;
        GROUP_RULE_NAMES[(gi - 1) % GROUP_RULE_NAMES.len()].to_string()
      } else {
        ti += 1;
        TYPE_RULE_NAMES[(ti - 1) % TYPE_RULE_NAMES.len()].to_string()
      };
      let params = if i > 0 && self.o.generics && self.t.chance(1, 4) {
        if self.t.chance(1, 3) { vec!["T".to_string(), "K".to_string()] } else { vec!["T".to_string()] }
      } else {
        vec![]
      };
      self.plan.push(Plan { name, is_group, params });
    }
    let mut rules = vec![];
    for i in 0..n {
      self.cur = i;
      self.params = self.plan[i].params.clone();
      self.can_recurse = false;
      let p = self.plan[i].clone();
      let d = self.o.depth;
      if p.is_group {
        let ent = self.group_rule_body(d);
        rules.push(RuleM { name: p.name.clone(), params: p.params.clone(), alt: false, body: Body::Grp(ent) });
        if self.o.increments && self.o.group_increments && p.params.is_empty() && self.t.chance(1, 6) {
          let ent = self.group_rule_body(d.saturating_sub(1));
          rules.push(RuleM { name: p.name.clone(), params: vec![], alt: true, body: Body::Grp(ent) });
        }
      } else {
        let mut ty = if i == 0 { self.root_ty(d) } else { self.ty(d) };
        // recursion through a tag: `name = <leaf> / #6.n(name)` (well-founded: the tag consumes a nesting level)
        if self.o.cbor && self.o.recursion && p.params.is_empty() && self.t.chance(1, 10) {
          let leafish = match &ty.0[0].t2 {
            Ty2::Lit(_) => true,
            Ty2::Name { name, args } => args.is_empty() && crate::sem::PRELUDE_CORE.contains(&name.as_str()),
            _ => false,
          };
          if leafish {
            let n = *self.t.pick(&[99u64, 2, 24, 1234]);
            ty.0.push(Ty1::plain(Ty2::Tag { num: Some(TagNum::Lit(n, n.to_string())), ty: Ty::name(&p.name) }));
          }
        }
        rules.push(RuleM { name: p.name.clone(), params: p.params.clone(), alt: false, body: Body::Ty(ty) });
        if self.o.increments && p.params.is_empty() && self.t.chance(1, 6) {
          let ty = self.ty(d.saturating_sub(1));
          rules.push(RuleM { name: p.name.clone(), params: vec![], alt: true, body: Body::Ty(ty) });
        }
      }
    }
    // increments need not be adjacent to the base rule: move `alt` rules to random later positions
    if self.t.chance(1, 3) {
      let alts: Vec<usize> = rules.iter().enumerate().filter(|(_, r)| r.alt).map(|(i, _)| i).collect();
      for i in alts.into_iter().rev() {
        let r = rules.remove(i);
        let pos = i + self.t.below(rules.len() - i + 1);
        rules.insert(pos.min(rules.len()), r);
      }
    }
    if self.o.extras && self.o.sockets {
      // plugs for the sockets that may have been referenced (a socket without plugs matches nothing)
      self.cur = self.plan.len();
      self.can_recurse = false;
      self.params.clear();
      for name in ["$sock", "$other"] {
        let n = self.t.below(3);
        for _ in 0..n {
          // a plug never refers to a socket (alias cycles have no meaning)
          self.no_socket_refs = true;
          let ty = Ty(vec![self.leaf_ty1(0)]);
          self.no_socket_refs = false;
          rules.push(RuleM { name: name.to_string(), params: vec![], alt: true, body: Body::Ty(ty) });
        }
      }
    }
    self.params.clear();
    if self.operands_wanted > 0 {
      // expressions that may refer to the auxiliary rules (everything after the root)
      self.cur = 0;
      self.can_recurse = false;
      self.operands.clear();
      for _ in 0..self.operands_wanted {
        let d = self.o.depth.min(2);
        let t = self.ty1(d);
        self.operands.push(t);
      }
    }
    Schema(rules)
  }

  /// the root is biased towards composite types
  fn root_ty(&mut self, d: usize) -> Ty {
    if self.t.chance(7, 10) {
      let mut alts = vec![];
      let n = 1 + self.t.weighted(&[70, 22, 8]);
      for _ in 0..n {
        let t2 = match self.t.weighted(&[if self.o.arrays { 45 } else { 0 }, if self.o.maps { 45 } else { 0 }, 10]) {
          0 => Ty2::Arr(self.arr_group(d.saturating_sub(1))),
          1 => Ty2::Map(self.map_group(d.saturating_sub(1))),
          _ => return self.ty(d),
        };
        alts.push(Ty1::plain(t2));
      }
      Ty(alts)
    } else {
      self.ty(d)
    }
  }

  pub fn ty(&mut self, d: usize) -> Ty {
    let n = 1 + self.t.weighted(&[68, 24, 8]);
    Ty((0..n).map(|_| self.ty1(d)).collect())
  }

  fn int_lit(&mut self) -> i128 {
    if self.o.cbor && self.t.chance(1, 8) {
      let v = *self.t.pick(crate::cbor::EDGE_UINTS) as i128;
      // literals must be representable: -2^63 ..= 2^64-1
      if self.t.chance(1, 3) && v < (1i128 << 63) { -1 - v } else { v }
    } else {
      self.t.range(-3, 12) as i128
    }
  }

  fn float_lit(&mut self) -> f64 {
    *self.t.pick(&[1.5, -0.25, 0.5, 2.5, 3.25, 10.75, -7.5, 100.125])
  }

  fn text_lit(&mut self) -> Lit {
    Lit::text(*self.t.pick(TEXTS))
  }

  fn bytes_lit(&mut self) -> Lit {
    if self.t.flag() {
      let n = self.t.below(4);
      let v: Vec<u8> = (0..n).map(|_| self.t.below(256) as u8).collect();
      Lit::bytes_hex(&v)
    } else {
      Lit::bytes_utf8(*self.t.pick(&["", "abc", "x y"]))
    }
  }

  /// reference to a type rule that may be used here (later rule, or any rule when recursion is allowed)
  fn type_ref(&mut self, d: usize) -> Option<Ty2> {
    let lo = if self.can_recurse && self.o.recursion && self.rec_ok() { 0 } else { self.cur + 1 };
    let cands: Vec<usize> = (lo..self.plan.len())
      .filter(|i| !self.plan[*i].is_group && (self.o.generic_self_nesting || !self.in_args_of.contains(i)))
      .filter(|i| *i > self.cur || self.o.generic_recursion || self.plan[*i].params.is_empty())
      .collect();
    if cands.is_empty() {
      return None;
    }
    let i = *self.t.pick(&cands);
    let p = self.plan[i].clone();
    self.in_args_of.push(i);
    let args: Vec<Ty1> = p.params.iter().map(|_| self.generic_arg(d)).collect();
    self.in_args_of.pop();
    Some(Ty2::Name { name: p.name, args })
  }

  /// may the rule being generated take part in a reference cycle?
  fn rec_ok(&self) -> bool {
    self.o.generic_recursion || self.plan.get(self.cur).map(|p| p.params.is_empty()).unwrap_or(true)
  }

  fn generic_arg(&mut self, d: usize) -> Ty1 {
    // arguments are closed leaf-ish type1s (no recursion through arguments)
    let save = self.can_recurse;
    self.can_recurse = false;
    let saved_params = if self.o.generic_param_forwarding { None } else { Some(std::mem::take(&mut self.params)) };
    let r = self.leaf_ty1(d.min(1));
    if let Some(p) = saved_params {
      self.params = p;
    }
    self.can_recurse = save;
    r
  }

  fn group_ref(&mut self, d: usize) -> Option<(String, Vec<Ty1>)> {
    let lo = if self.can_recurse && self.o.recursion && self.rec_ok() { 0 } else { self.cur + 1 };
    let cands: Vec<usize> = (lo..self.plan.len())
      .filter(|i| self.plan[*i].is_group && (self.o.generic_self_nesting || !self.in_args_of.contains(i)))
      .filter(|i| *i > self.cur || self.o.generic_recursion || self.plan[*i].params.is_empty())
      .collect();
    if cands.is_empty() {
      return None;
    }
    let i = *self.t.pick(&cands);
    let p = self.plan[i].clone();
    self.in_args_of.push(i);
    let args: Vec<Ty1> = p.params.iter().map(|_| self.generic_arg(d)).collect();
    self.in_args_of.pop();
    Some((p.name, args))
  }

  fn prelude_scalar(&mut self) -> &'static str {
    let base: &[&str] =
      &["int", "uint", "nint", "tstr", "text", "bool", "true", "false", "nil", "null", "float", "number", "any", "int", "tstr", "uint"];
    let cb: &[&str] = if self.o.undefined { &["bstr", "bytes", "undefined"] } else { &["bstr", "bytes", "bstr"] };
    if self.o.cbor && self.t.chance(1, 6) {
      *self.t.pick(cb)
    } else {
      let p = *self.t.pick(base);
      if !self.o.floats && p == "float" {
        "number"
      } else {
        p
      }
    }
  }

  fn range(&mut self) -> Ty1 {
    let incl = self.t.chance(2, 3);
    if self.o.floats && self.t.chance(1, 5) {
      let mut l = self.float_lit();
      let mut u = self.float_lit();
      if l > u {
        std::mem::swap(&mut l, &mut u);
      }
      if l == u {
        u += 1.5;
      }
      return Ty1 { t2: Ty2::Lit(Lit::float(l)), op: Some((Op::Range { inclusive: incl }, Ty2::Lit(Lit::float(u)))) };
    }
    let mut l = self.int_lit();
    let mut u = self.int_lit();
    if l > u {
      std::mem::swap(&mut l, &mut u);
    }
    if l == u {
      u += 1 + self.t.below(3) as i128;
    }
    if u > u64::MAX as i128 {
      // bounds must stay representable
      u = u64::MAX as i128;
      l = u - 1 - self.t.below(3) as i128;
    }
    if !self.o.mixed_sign_ranges && l < 0 && u >= 0 {
      l = 0;
      if u == 0 {
        u = 2;
      }
    }
    Ty1 { t2: Ty2::Lit(Lit::int(l)), op: Some((Op::Range { inclusive: incl }, Ty2::Lit(Lit::int(u)))) }
  }

  fn control(&mut self) -> Ty1 {
    match self.t.weighted(&[30, 35, 35]) {
      0 => {
        // .size
        let target = if self.o.cbor { *self.t.pick(&["tstr", "uint", "bstr", "text", "bytes"]) } else { *self.t.pick(&["tstr", "uint", "text"]) };
        let ctrl = if target != "uint" && self.t.chance(1, 3) {
          let l = self.t.below(3) as i128;
          let u = l + 1 + self.t.below(4) as i128;
          Ty2::Paren(Ty(vec![Ty1 { t2: Ty2::Lit(Lit::int(l)), op: Some((Op::Range { inclusive: self.t.flag() }, Ty2::Lit(Lit::int(u)))) }]))
        } else {
          Ty2::Lit(Lit::int(if target == "uint" { 1 + self.t.below(3) as i128 } else { self.t.below(6) as i128 }))
        };
        Ty1 { t2: name_ty2(target), op: Some((Op::Ctl("size".into()), ctrl)) }
      }
      1 => {
        let op = *self.t.pick(&["lt", "le", "gt", "ge"]);
        if self.o.floats && self.t.chance(1, 5) {
          let c = self.float_lit();
          Ty1 { t2: name_ty2("float"), op: Some((Op::Ctl(op.into()), Ty2::Lit(Lit::float(c)))) }
        } else {
          let target = *self.t.pick(&["int", "uint", "int", "nint"]);
          let c = self.int_lit();
          Ty1 { t2: name_ty2(target), op: Some((Op::Ctl(op.into()), Ty2::Lit(Lit::int(c)))) }
        }
      }
      _ => {
        let op = *self.t.pick(&["eq", "ne"]);
        match self.t.weighted(&[45, 35, if self.o.floats { 10 } else { 0 }, if self.o.eq_on_bool { 10 } else { 0 }]) {
          0 => {
            let target = *self.t.pick(&["int", "uint", "number"]);
            let c = self.int_lit();
            Ty1 { t2: name_ty2(target), op: Some((Op::Ctl(op.into()), Ty2::Lit(Lit::int(c)))) }
          }
          1 => {
            let c = self.text_lit();
            Ty1 { t2: name_ty2(*self.t.pick(&["tstr", "text"])), op: Some((Op::Ctl(op.into()), Ty2::Lit(c))) }
          }
          2 => {
            let c = self.float_lit();
            Ty1 { t2: name_ty2("float"), op: Some((Op::Ctl(op.into()), Ty2::Lit(Lit::float(c)))) }
          }
          _ => {
            let c = self.t.flag();
            // bool .eq true : the controller is a prelude name, not a literal -> outside the reference
            // fragment's .eq (kept rare; counted as unsupported by the oracle)
            Ty1 { t2: name_ty2("bool"), op: Some((Op::Ctl(op.into()), name_ty2(if c { "true" } else { "false" }))) }
          }
        }
      }
    }
  }

  fn leaf_ty1(&mut self, d: usize) -> Ty1 {
    let w = [
      34,
      22,
      10,
      if self.o.controls { 12 } else { 0 },
      8,
      if self.o.cbor { 10 } else { 0 },
      if !self.params.is_empty() { 14 } else { 0 },
      if self.o.extras { 14 } else { 0 },
    ];
    match self.t.weighted(&w) {
      0 => Ty1::plain(name_ty2(self.prelude_scalar())),
      1 => {
        let l = match self.t.weighted(&[45, 40, if self.o.floats { 15 } else { 0 }, if self.o.cbor { 12 } else { 0 }]) {
          0 => Lit::int(self.int_lit()),
          1 => self.text_lit(),
          2 => Lit::float(self.float_lit()),
          _ => self.bytes_lit(),
        };
        Ty1::plain(Ty2::Lit(l))
      }
      2 => self.range(),
      3 => self.control(),
      4 => match self.type_ref(d) {
        Some(t) => Ty1::plain(t),
        None => Ty1::plain(name_ty2(self.prelude_scalar())),
      },
      5 => self.cbor_leaf(d),
      6 => {
        let p = self.t.pick(&self.params.clone()).clone();
        Ty1::plain(name_ty2(&p))
      }
      _ => self.extra_leaf(d),
    }
  }

  /// constructs of the shared JSON/CBOR feature set beyond the core fragment (C04, C08)
  fn extra_leaf(&mut self, d: usize) -> Ty1 {
    let w = [
      if self.o.unwrap { 20 } else { 0 },
      if self.o.choice_from_group { 20 } else { 0 },
      if self.o.sockets && !self.no_socket_refs { 15 } else { 0 },
      if self.o.regexp { 15 } else { 0 },
      if self.o.default_ctl { 10 } else { 0 },
      if self.o.cat_plus { 20 } else { 0 },
    ];
    match self.t.weighted(&w) {
      0 => {
        // ~name of a later non-generic type rule
        let lo = self.cur + 1;
        let cands: Vec<usize> = (lo..self.plan.len()).filter(|i| !self.plan[*i].is_group && self.plan[*i].params.is_empty()).collect();
        if cands.is_empty() {
          return Ty1::plain(name_ty2("int"));
        }
        let i = *self.t.pick(&cands);
        Ty1::plain(Ty2::Unwrap { name: self.plan[i].name.clone(), args: vec![] })
      }
      1 => {
        if self.t.flag() || !self.o.choice_from_named_group {
          let n = 1 + self.t.below(3);
          let mut ents = vec![];
          for k in 0..n {
            let key = Key::Bare(["red", "green", "blue"][k].to_string());
            let ty = match self.t.below(3) {
              0 => Ty(vec![Ty1::plain(Ty2::Lit(Lit::int(k as i128 + 1)))]),
              1 => Ty(vec![Ty1::plain(Ty2::Lit(self.text_lit()))]),
              _ => Ty(vec![Ty1::plain(name_ty2(self.prelude_scalar()))]),
            };
            ents.push(Ent { occ: None, kind: EntKind::Val { key: Some(key), ty } });
          }
          Ty1::plain(Ty2::ChoiceInline(Grp(vec![ents])))
        } else {
          match self.group_ref(d) {
            Some((name, args)) => Ty1::plain(Ty2::ChoiceName { name, args }),
            None => Ty1::plain(name_ty2("tstr")),
          }
        }
      }
      2 => Ty1::plain(name_ty2(*self.t.pick(&["$sock", "$other"]))),
      3 => {
        let re = *self.t.pick(&["[a-z]+", "a.c", "[0-9]{2,3}", "(ab)*", "caf.", "^x"]);
        let ctl = if self.o.text_ctl_variants { *self.t.pick(&["regexp", "iregexp", "pcre", "regexp"]) } else { "regexp" };
        Ty1 { t2: name_ty2(*self.t.pick(&["tstr", "text"])), op: Some((Op::Ctl(ctl.into()), Ty2::Lit(Lit::text(re)))) }
      }
      4 => {
        let (t, c) = match self.t.below(3) {
          0 => ("int", Lit::int(self.int_lit())),
          1 => ("tstr", self.text_lit()),
          _ => ("uint", Lit::int(self.t.below(5) as i128)),
        };
        Ty1 { t2: name_ty2(t), op: Some((Op::Ctl("default".into()), Ty2::Lit(c))) }
      }
      _ => {
        if self.t.flag() {
          let a = self.text_lit();
          let b = self.text_lit();
          Ty1 { t2: Ty2::Lit(a), op: Some((Op::Ctl("cat".into()), Ty2::Lit(b))) }
        } else {
          let a = Lit::int(self.t.range(0, 9) as i128);
          let b = Lit::int(self.t.range(0, 9) as i128);
          Ty1 { t2: Ty2::Lit(a), op: Some((Op::Ctl("plus".into()), Ty2::Lit(b))) }
        }
      }
    }
  }

  fn cbor_leaf(&mut self, d: usize) -> Ty1 {
    match self.t.below(4) {
      0 if d > 0 => {
        let num = if self.t.chance(1, 8) && self.o.tag_without_number {
          None
        } else {
          let v = *self.t.pick(&[0u64, 1, 2, 24, 32, 99, 1234, 55799]);
          Some(TagNum::Lit(v, v.to_string()))
        };
        let save = self.can_recurse;
        let ty = self.ty(d - 1);
        self.can_recurse = save;
        Ty1::plain(Ty2::Tag { num, ty })
      }
      1 => {
        let mut mt = self.t.below(8) as u8;
        if mt == 6 && !self.o.tag_without_number {
          mt = 5;
        }
        Ty1::plain(Ty2::Major { mt, num: None })
      }
      2 => {
        let mut n = *self.t.pick(&[20u64, 21, 22, 23, 0, 16, 19, 32, 255]);
        if n == 23 && !self.o.undefined {
          n = 22;
        }
        Ty1::plain(Ty2::Major { mt: 7, num: Some(TagNum::Lit(n, n.to_string())) })
      }
      _ => Ty1::plain(Ty2::Any),
    }
  }

  pub fn ty1(&mut self, d: usize) -> Ty1 {
    if d == 0 {
      return self.leaf_ty1(0);
    }
    let w = [58, if self.o.arrays { 16 } else { 0 }, if self.o.maps { 16 } else { 0 }, 5, if self.o.and_within { 5 } else { 0 }];
    match self.t.weighted(&w) {
      0 => self.leaf_ty1(d),
      1 => Ty1::plain(Ty2::Arr(self.arr_group(d - 1))),
      2 => Ty1::plain(Ty2::Map(self.map_group(d - 1))),
      3 => Ty1::plain(Ty2::Paren(self.ty(d - 1))),
      _ => {
        let a = self.leaf_ty1(d);
        let b = self.leaf_ty1(0);
        if a.op.is_some() || b.op.is_some() {
          a
        } else {
          Ty1 { t2: a.t2, op: Some((Op::Ctl((*self.t.pick(&["and", "within"])).into()), b.t2)) }
        }
      }
    }
  }

  fn occ_array(&mut self) -> Option<Occ> {
    match self.t.weighted(&[50, 13, 13, 9, 15]) {
      0 => None,
      1 => Some(Occ::Opt),
      2 => Some(Occ::Star),
      3 => Some(Occ::Plus),
      _ => {
        let l = if self.t.flag() { Some(self.t.below(3) as u64) } else { None };
        let u = if self.t.flag() { Some(l.unwrap_or(0) + self.t.below(3) as u64) } else { None };
        if l.is_none() && u.is_none() {
          Some(Occ::Range(Some(2), None))
        } else if u == Some(0) {
          Some(Occ::Range(l, Some(1)))
        } else {
          Some(Occ::Range(l, u))
        }
      }
    }
  }

  fn zero_min(o: &Option<Occ>) -> bool {
    crate::sem::occ_bounds(o).0 == 0
  }

  pub fn arr_group(&mut self, d: usize) -> Grp {
    let nc = 1 + self.t.weighted(&[85, 12, 3]);
    Grp((0..nc).map(|_| self.arr_choice(d)).collect())
  }

  fn arr_choice(&mut self, d: usize) -> Vec<Ent> {
    let ne = self.t.weighted(&[6, 34, 30, 18, 12]);
    (0..ne).map(|_| self.arr_entry(d)).collect()
  }

  fn arr_entry(&mut self, d: usize) -> Ent {
    let occ = self.occ_array();
    let save = self.can_recurse;
    if Self::zero_min(&occ) {
      self.can_recurse = true;
    }
    let kind = match self.t.weighted(&[68, if d > 0 { 14 } else { 0 }, 14, 4]) {
      0 => {
        let key = if self.t.chance(1, 10) { Some(Key::Bare((*self.t.pick(KEYS)).to_string())) } else { None };
        let mut ty = self.ty(d);
        if key.is_none() && matches!(ty.0[0].t2, Ty2::Paren(_)) {
          // `( ... )` at the start of a key-less entry reads as an inline group
          ty.0[0] = Ty1::plain(name_ty2("int"));
        }
        EntKind::Val { key, ty }
      }
      1 => EntKind::Inline(self.arr_group(d - 1)),
      2 => match self.group_ref(d) {
        Some((name, args)) => EntKind::Ref { name, args },
        None => EntKind::Val { key: None, ty: self.ty(d) },
      },
      _ => EntKind::Val { key: None, ty: Ty(vec![Ty1::plain(name_ty2("any"))]) },
    };
    self.can_recurse = save;
    let kind = match kind {
      EntKind::Val { key: None, mut ty } => {
        if matches!(ty.0[0].t2, Ty2::Paren(_)) {
          ty.0[0] = Ty1::plain(name_ty2("int"));
        }
        EntKind::Val { key: None, ty }
      }
      k => k,
    };
    Ent { occ, kind }
  }

  pub fn map_group(&mut self, d: usize) -> Grp {
    let nc = 1 + if self.o.map_group_choices { self.t.weighted(&[85, 12, 3]) } else { self.t.weighted(&[85, 0, 0]) };
    Grp((0..nc).map(|_| self.map_choice(d)).collect())
  }

  fn map_key_lit(&mut self, used: &mut Vec<String>) -> Lit {
    // distinct literal keys within one group choice (mostly)
    for _ in 0..4 {
      let l = if self.o.cbor && self.t.chance(1, 4) { Lit::int(self.t.range(-2, 5) as i128) } else { Lit::text(*self.t.pick(KEYS)) };
      let id = l.spelling().to_string();
      if !used.contains(&id) || (self.o.dup_literal_keys && self.t.chance(1, 12)) {
        used.push(id);
        return l;
      }
    }
    Lit::text("zz")
  }

  fn map_choice(&mut self, d: usize) -> Vec<Ent> {
    let ne = self.t.weighted(&[6, 30, 30, 20, 14]);
    let mut used: Vec<String> = vec![];
    let mut out = vec![];
    for i in 0..ne {
      let last = i + 1 == ne;
      out.push(self.map_entry(d, &mut used, last));
    }
    out
  }

  fn map_entry(&mut self, d: usize, used: &mut Vec<String>, last: bool) -> Ent {
    let table_w = if last { 30 } else if self.o.table_not_last { 6 } else { 0 };
    match self.t.weighted(&[60, table_w, if d > 0 && self.o.map_inline_groups { 8 } else { 0 }, if self.o.map_group_refs { 8 } else { 0 }]) {
      0 => {
        let occ = if self.t.chance(2, 5) { Some(Occ::Opt) } else { None };
        let save = self.can_recurse;
        if occ.is_some() {
          self.can_recurse = true;
        }
        let l = self.map_key_lit(used);
        let key = match (&l, self.t.weighted(&[45, 25, if self.o.noncut_keys { 20 } else { 0 }, 10])) {
          (Lit::Text { v, .. }, 0) if is_bareword(v) => Key::Bare(v.clone()),
          (_, 0) | (_, 1) => Key::Val(l.clone()),
          (_, 2) => Key::Arrow { t1: Ty1::plain(Ty2::Lit(l.clone())), cut: false },
          _ => Key::Arrow { t1: Ty1::plain(Ty2::Lit(l.clone())), cut: true },
        };
        let ty = self.ty(d);
        self.can_recurse = save;
        Ent { occ, kind: EntKind::Val { key: Some(key), ty } }
      }
      1 => {
        // table: type-domain key
        let occ = match self.t.weighted(&[60, 12, 10, 18]) {
          0 => Some(Occ::Star),
          1 => Some(Occ::Plus),
          2 => Some(Occ::Opt),
          _ => {
            let l = self.t.below(3) as u64;
            Some(Occ::Range(Some(l), Some(l + 1 + self.t.below(2) as u64)))
          }
        };
        let save = self.can_recurse;
        if Self::zero_min(&occ) {
          self.can_recurse = true;
        }
        let kt = if self.o.cbor {
          *self.t.pick(&["tstr", "tstr", "uint", "int", "bstr", "any", "text"])
        } else {
          *self.t.pick(&["tstr", "tstr", "text", "any"])
        };
        let cut = self.t.chance(1, 6);
        let ty = self.ty(d);
        self.can_recurse = save;
        Ent { occ, kind: EntKind::Val { key: Some(Key::Arrow { t1: Ty1::plain(name_ty2(kt)), cut }), ty } }
      }
      2 => {
        let occ = if self.t.chance(1, 3) && self.o.map_group_occ { Some(Occ::Opt) } else { None };
        let save = self.can_recurse;
        if occ.is_some() {
          self.can_recurse = true;
        }
        let g = self.map_group_inner(d - 1, used);
        self.can_recurse = save;
        Ent { occ, kind: EntKind::Inline(g) }
      }
      _ => match self.group_ref(d) {
        Some((name, args)) => {
          let occ = if self.t.chance(1, 4) && self.o.map_group_occ { Some(Occ::Opt) } else { None };
          Ent { occ, kind: EntKind::Ref { name, args } }
        }
        None => {
          let l = self.map_key_lit(used);
          Ent { occ: None, kind: EntKind::Val { key: Some(Key::Val(l)), ty: self.ty(d) } }
        }
      },
    }
  }

  fn map_group_inner(&mut self, d: usize, used: &mut Vec<String>) -> Grp {
    let nc = 1 + if self.o.map_group_choices { self.t.weighted(&[80, 20]) } else { 0 };
    Grp(
      (0..nc)
        .map(|_| {
          let ne = 1 + self.t.below(2);
          (0..ne).map(|_| self.map_entry(d, used, false)).collect()
        })
        .collect(),
    )
  }

  /// body of a group rule: usable both inside arrays and inside maps (keyed entries)
  fn group_rule_body(&mut self, d: usize) -> Ent {
    let mut used = vec![];
    if self.t.chance(1, 3) {
      // single keyed entry
      let l = self.map_key_lit(&mut used);
      let key = match &l {
        Lit::Text { v, .. } if is_bareword(v) => Key::Bare(v.clone()),
        _ => Key::Val(l.clone()),
      };
      let occ = if self.t.chance(1, 4) { Some(Occ::Opt) } else { None };
      let save = self.can_recurse;
      if occ.is_some() {
        self.can_recurse = true;
      }
      let ty = self.ty(d.min(2));
      self.can_recurse = save;
      Ent { occ, kind: EntKind::Val { key: Some(key), ty } }
    } else {
      let nc = 1 + if self.o.map_group_choices { self.t.weighted(&[80, 20]) } else { 0 };
      let g = Grp(
        (0..nc)
          .map(|_| {
            let ne = 1 + self.t.weighted(&[40, 40, 20]);
            (0..ne)
              .map(|_| {
                // occasionally a reference to a later group rule (nested group references, nested generics)
                if self.o.map_group_refs && (self.o.group_alias_bodies || (nc > 1 || ne > 1)) && self.t.chance(1, 6) {
                  if let Some((name, args)) = self.group_ref(d) {
                    return Ent { occ: None, kind: EntKind::Ref { name, args } };
                  }
                }
                let l = self.map_key_lit(&mut used);
                let key = match &l {
                  Lit::Text { v, .. } if is_bareword(v) => Key::Bare(v.clone()),
                  _ => Key::Val(l.clone()),
                };
                let occ = if self.t.chance(1, 4) { Some(Occ::Opt) } else { None };
                let save = self.can_recurse;
                if occ.is_some() {
                  self.can_recurse = true;
                }
                let ty = self.ty(d.min(2).saturating_sub(1));
                self.can_recurse = save;
                Ent { occ, kind: EntKind::Val { key: Some(key), ty } }
              })
              .collect()
          })
          .collect(),
      );
      Ent { occ: None, kind: EntKind::Inline(g) }
    }
  }
}

pub fn is_bareword(s: &str) -> bool {
  let mut cs = s.chars();
  match cs.next() {
    Some(c) if c.is_ascii_alphabetic() || c == '_' || c == '@' || c == '$' => {}
    _ => return false,
  }
  let b: Vec<char> = s.chars().collect();
  if matches!(b.last(), Some('-') | Some('.')) {
    return false;
  }
  b.iter().all(|c| c.is_ascii_alphanumeric() || matches!(c, '_' | '@' | '$' | '-' | '.'))
}
