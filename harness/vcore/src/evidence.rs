//! evidence/<id>.json writer (schema: /root/.vp/EVIDENCE.schema.json, level "exploration").
use crate::ctx::Ctx;
use crate::engine::Stats;
use serde_json::{json, Map, Value as J};
use std::sync::atomic::Ordering;

pub fn write(ctx: &Ctx, parts: &[(String, Stats)]) {
  let mut evals = 0u64;
  let mut nontrivial = 0u64;
  let mut samples: Vec<J> = vec![];
  let mut per_part = Map::new();
  let mut excluded = Map::new();
  let mut crash = Map::new();
  for (name, st) in parts {
    evals += st.evals;
    // parts use disjoint key spaces (different sub-checks), so the sum counts distinct cases
    nontrivial += st.nontrivial_total();
    let mut c = Map::new();
    for (k, v) in &st.counters {
      c.insert(k.clone(), json!(v));
    }
    per_part.insert(
      name.clone(),
      json!({"evaluations": st.evals, "distinct_nontrivial": st.nontrivial_total(), "strata": c}),
    );
    for (k, v) in &st.excluded {
      let e = excluded.entry(k.clone()).or_insert(json!(0));
      *e = json!(e.as_u64().unwrap_or(0) + v);
    }
    for (k, v) in &st.crash {
      let e = crash.entry(k.clone()).or_insert(json!(0));
      *e = json!(e.as_u64().unwrap_or(0) + v);
    }
    for (i, (_, s)) in st.samples.iter().enumerate() {
      if i < 4 || samples.len() < 10 {
        samples.push(json!({"check": name, "case": s}));
      }
    }
  }
  samples.truncate(24);
  let mut coverage = Map::new();
  coverage.insert("evaluations".into(), json!(evals));
  coverage.insert("distinct_nontrivial".into(), json!(nontrivial));
  coverage.insert("rule".into(), json!(ctx.rule.lock().unwrap().clone()));
  coverage.insert("samples".into(), J::Array(samples));
  coverage.insert("sub_checks".into(), J::Object(per_part));
  coverage.insert("excluded_by_known_finding".into(), J::Object(excluded));
  coverage.insert("crash_tally".into(), J::Object(crash));
  coverage.insert("known_finding_lines".into(), json!(ctx.known_lines.lock().unwrap().clone()));
  coverage.insert("threads".into(), json!(ctx.threads));
  for (k, v) in ctx.extra.lock().unwrap().iter() {
    coverage.insert(k.clone(), v.clone());
  }
  let ev = json!({
    "property_id": ctx.prop,
    "tier": ctx.tier.name(),
    "seed": ctx.seed as i64,
    "level": "exploration",
    "coverage": J::Object(coverage),
    "assumptions": ctx.assumptions.lock().unwrap().clone(),
    "wall_s": (ctx.elapsed() * 100.0).round() / 100.0,
    "violations": ctx.violations.load(Ordering::SeqCst),
    "inconclusive": ctx.inconclusive.load(Ordering::SeqCst),
  });
  let dir = ctx.verif_dir.join("evidence");
  let _ = std::fs::create_dir_all(&dir);
  let path = dir.join(format!("{}.json", ctx.prop));
  std::fs::write(&path, serde_json::to_string_pretty(&ev).unwrap()).expect("write evidence");
}
