//! Document samplers: valid-by-construction attempts (walk the schema), near-miss edits and
//! unrelated values.  The *oracle* decides the expected verdict; the samplers only aim.
use crate::cbor::{gen_float, gen_int, CVal, EDGE_UINTS};
use crate::cmodel::*;
use crate::engine::Tape;
use crate::sem::occ_bounds;

pub struct Sampler<'s, 'a, 'b> {
  pub schema: &'s Schema,
  pub t: &'a mut Tape<'b>,
  /// restrict to the JSON data model (text keys, no bytes/tags/simple, 64-bit ints, finite fractional floats)
  pub json: bool,
  fuel: usize,
  frames: Vec<(Vec<String>, Vec<Ty1>, usize)>,
}

const SAMPLE_TEXTS: &[&str] = &["", "a", "b", "abc", "key", "hello", "caf\u{e9}", "\u{4e16}\u{754c}", "zz", "x y"];

impl<'s, 'a, 'b> Sampler<'s, 'a, 'b> {
  pub fn new(schema: &'s Schema, t: &'a mut Tape<'b>, json: bool) -> Self {
    Sampler { schema, t, json, fuel: 400, frames: vec![(vec![], vec![], 0)] }
  }

  pub fn root(&mut self) -> CVal {
    self.fuel = 400;
    self.frames.truncate(1);
    match self.schema.0.iter().find(|r| matches!(r.body, Body::Ty(_)) && r.params.is_empty()) {
      Some(r) => {
        let name = r.name.clone();
        self.named(&name, &[], 0, 5)
      }
      None => CVal::null(),
    }
  }

  fn int(&mut self) -> i128 {
    if self.json {
      match self.t.weighted(&[70, 30]) {
        0 => self.t.range(-3, 12) as i128,
        _ => {
          let v = *self.t.pick(&EDGE_UINTS[..EDGE_UINTS.len()]) as i128;
          if self.t.chance(1, 4) && v <= (1i128 << 63) - 1 { -1 - v } else { v }
        }
      }
    } else {
      gen_int(self.t)
    }
  }

  fn float(&mut self) -> f64 {
    if self.json {
      // always fractional, finite
      let k = self.t.range(-40, 40) as f64;
      k + *self.t.pick(&[0.5, 0.25, 0.125, 0.75])
    } else {
      gen_float(self.t)
    }
  }

  fn text(&mut self) -> String {
    (*self.t.pick(SAMPLE_TEXTS)).to_string()
  }

  pub fn any_value(&mut self, depth: usize) -> CVal {
    let leaf = depth == 0 || self.fuel == 0;
    self.fuel = self.fuel.saturating_sub(1);
    let w = [25, 20, 12, 8, if leaf { 0 } else { 12 }, if leaf { 0 } else { 12 }, if self.json { 0 } else { 11 }];
    match self.t.weighted(&w) {
      0 => CVal::Int(self.int()),
      1 => CVal::Text(self.text()),
      2 => CVal::f(self.float()),
      3 => self.t.pick(&[CVal::bool(true), CVal::bool(false), CVal::null()]).clone(),
      4 => {
        let n = self.t.below(4);
        CVal::Array((0..n).map(|_| self.any_value(depth - 1)).collect())
      }
      5 => {
        let n = self.t.below(3);
        let mut m: Vec<(CVal, CVal)> = vec![];
        for _ in 0..n {
          let k = if self.json || self.t.chance(2, 3) { CVal::Text(self.text()) } else { CVal::Int(self.int()) };
          if m.iter().any(|(x, _)| *x == k) {
            continue;
          }
          let v = self.any_value(depth - 1);
          m.push((k, v));
        }
        CVal::Map(m)
      }
      _ => match self.t.below(4) {
        0 => {
          let n = self.t.below(4);
          CVal::Bytes((0..n).map(|_| self.t.below(256) as u8).collect())
        }
        1 => CVal::Tag(*self.t.pick(&[0u64, 1, 2, 24, 32, 99, 1234, 55799]), Box::new(self.any_value(depth.saturating_sub(1)))),
        2 => CVal::Simple(*self.t.pick(&[23u8, 0, 16, 19, 32, 255])),
        _ => CVal::Bytes(b"abc".to_vec()),
      },
    }
  }

  fn resolve_param(&self, name: &str, env: usize) -> Option<(Ty1, usize)> {
    let fr = &self.frames[env];
    fr.0.iter().position(|n| n == name).and_then(|i| fr.1.get(i).cloned().map(|a| (a, fr.2)))
  }

  fn prelude(&mut self, p: &str, depth: usize) -> CVal {
    match p {
      "any" => self.any_value(depth.min(2)),
      "uint" => {
        let v = self.int();
        CVal::Int(if v < 0 { -1 - v } else { v })
      }
      "nint" => {
        let v = self.int();
        CVal::Int(if v >= 0 { -1 - v } else { v })
      }
      "int" => CVal::Int(self.int()),
      "bstr" | "bytes" => {
        let n = self.t.below(5);
        CVal::Bytes((0..n).map(|_| self.t.below(256) as u8).collect())
      }
      "tstr" | "text" => CVal::Text(self.text()),
      "bool" => CVal::bool(self.t.flag()),
      "true" => CVal::bool(true),
      "false" => CVal::bool(false),
      "nil" | "null" => CVal::null(),
      "undefined" => CVal::Simple(23),
      "float" => CVal::f(self.float()),
      "number" => {
        if self.t.flag() {
          CVal::Int(self.int())
        } else {
          CVal::f(self.float())
        }
      }
      _ => CVal::null(),
    }
  }

  fn named(&mut self, name: &str, args: &[Ty1], env: usize, depth: usize) -> CVal {
    if let Some((a, penv)) = self.resolve_param(name, env) {
      return self.ty1(&a, penv, depth);
    }
    let defs: Vec<&'s RuleM> = self.schema.0.iter().filter(|r| r.name == name).collect();
    if !defs.is_empty() {
      let r = *self.t.pick(&defs);
      if let Body::Ty(t) = &r.body {
        let fl = self.frames.len();
        let e2 = if r.params.is_empty() {
          0
        } else {
          self.frames.push((r.params.clone(), args.to_vec(), env));
          fl
        };
        let v = self.ty(t, e2, depth);
        self.frames.truncate(fl);
        return v;
      }
      return CVal::null();
    }
    self.prelude(name, depth)
  }

  pub fn ty(&mut self, t: &Ty, env: usize, depth: usize) -> CVal {
    self.fuel = self.fuel.saturating_sub(1);
    // out of budget: prefer a non-composite alternative
    let idx = if self.fuel == 0 || depth == 0 {
      t.0.iter().position(|x| !matches!(x.t2, Ty2::Arr(_) | Ty2::Map(_) | Ty2::Tag { .. })).unwrap_or(0)
    } else {
      self.t.below(t.0.len())
    };
    self.ty1(&t.0[idx], env, depth)
  }

  fn lit_of(&self, t: &Ty2, env: usize, d: usize) -> Option<Lit> {
    if d > 6 {
      return None;
    }
    match t {
      Ty2::Lit(l) => Some(l.clone()),
      Ty2::Paren(ty) if ty.0.len() == 1 && ty.0[0].op.is_none() => self.lit_of(&ty.0[0].t2, env, d + 1),
      Ty2::Name { name, args } if args.is_empty() => {
        if let Some((a, penv)) = self.resolve_param(name, env) {
          return if a.op.is_none() { self.lit_of(&a.t2, penv, d + 1) } else { None };
        }
        let defs: Vec<&RuleM> = self.schema.0.iter().filter(|r| &r.name == name).collect();
        if defs.len() == 1 {
          if let Body::Ty(ty) = &defs[0].body {
            if ty.0.len() == 1 && ty.0[0].op.is_none() {
              return self.lit_of(&ty.0[0].t2, 0, d + 1);
            }
          }
        }
        None
      }
      _ => None,
    }
  }

  fn lit_val(l: &Lit) -> CVal {
    match l {
      Lit::Int { v, .. } => CVal::Int(*v),
      Lit::Float { v, .. } => CVal::f(*v),
      Lit::Text { v, .. } => CVal::Text(v.clone()),
      Lit::Bytes { v, .. } => CVal::Bytes(v.clone()),
    }
  }

  fn ty1(&mut self, t: &Ty1, env: usize, depth: usize) -> CVal {
    let (op, rhs) = match &t.op {
      None => return self.ty2(&t.t2, env, depth),
      Some(x) => x,
    };
    match op {
      Op::Range { inclusive } => {
        let l = self.lit_of(&t.t2, env, 0);
        let u = self.lit_of(rhs, env, 0);
        match (l, u) {
          (Some(Lit::Int { v: l, .. }), Some(Lit::Int { v: u, .. })) => {
            let hi = if *inclusive { u } else { u - 1 };
            match self.t.below(5) {
              0 => CVal::Int(l),
              1 => CVal::Int(hi),
              2 => CVal::Int(u),
              3 => CVal::Int(l - 1),
              _ => CVal::Int(if hi > l { l + (self.t.below(((hi - l).min(1000) + 1) as usize) as i128) } else { l }),
            }
          }
          (Some(Lit::Float { v: l, .. }), Some(Lit::Float { v: u, .. })) => match self.t.below(4) {
            0 => CVal::f(l),
            1 => CVal::f(u),
            2 => CVal::f((l + u) / 2.0 + 0.0625),
            _ => CVal::f(u + 0.5),
          },
          _ => self.ty2(&t.t2, env, depth),
        }
      }
      Op::Ctl(name) => {
        let c = self.lit_of(rhs, env, 0);
        match (name.as_str(), c) {
          ("size", c) => {
            // byte count to aim for
            let n: usize = match (&c, rhs) {
              (Some(Lit::Int { v, .. }), _) if *v >= 0 => (*v).min(64) as usize,
              (_, Ty2::Paren(ty)) if ty.0.len() == 1 => {
                let t1 = &ty.0[0];
                match (self.lit_of(&t1.t2, env, 0), t1.op.as_ref().and_then(|o| self.lit_of(&o.1, env, 0))) {
                  (Some(Lit::Int { v: l, .. }), Some(Lit::Int { v: u, .. })) if l >= 0 && u >= l => {
                    (l + self.t.below((u - l + 1).min(8) as usize) as i128) as usize
                  }
                  _ => 1,
                }
              }
              _ => 1,
            };
            let n = match self.t.below(6) {
              0 => n + 1,
              1 => n.saturating_sub(1),
              _ => n,
            };
            let base = self.ty2(&t.t2, env, depth);
            match base {
              CVal::Text(_) => {
                // n bytes of UTF-8: mix in a 2-byte char when it fits
                let mut s = String::new();
                let mut left = n;
                while left > 0 {
                  if left >= 2 && self.t.chance(1, 4) {
                    s.push('\u{e9}');
                    left -= 2;
                  } else {
                    s.push((b'a' + (left % 26) as u8) as char);
                    left -= 1;
                  }
                }
                CVal::Text(s)
              }
              CVal::Bytes(_) => CVal::Bytes((0..n).map(|i| i as u8).collect()),
              CVal::Int(_) => {
                let bits = (8 * n).min(64) as u32;
                let max: u128 = if bits >= 64 { u64::MAX as u128 } else { (1u128 << bits) - 1 };
                match self.t.below(4) {
                  0 => CVal::Int(max as i128),
                  1 => CVal::Int((max + 1).min(u64::MAX as u128) as i128),
                  2 => CVal::Int(0),
                  _ => CVal::Int((self.t.u64_full() as u128 & max) as i128),
                }
              }
              other => other,
            }
          }
          ("lt", Some(Lit::Int { v, .. })) => CVal::Int(v - self.t.below(3) as i128),
          ("le", Some(Lit::Int { v, .. })) => CVal::Int(v + 1 - self.t.below(3) as i128),
          ("gt", Some(Lit::Int { v, .. })) => CVal::Int(v + self.t.below(3) as i128),
          ("ge", Some(Lit::Int { v, .. })) => CVal::Int(v - 1 + self.t.below(3) as i128),
          ("lt", Some(Lit::Float { v, .. })) | ("le", Some(Lit::Float { v, .. })) => {
            CVal::f(v - [0.5, 0.0, -0.5][self.t.below(3)])
          }
          ("gt", Some(Lit::Float { v, .. })) | ("ge", Some(Lit::Float { v, .. })) => {
            CVal::f(v + [0.5, 0.0, -0.5][self.t.below(3)])
          }
          ("eq", Some(l)) => {
            if self.t.chance(3, 4) {
              Self::lit_val(&l)
            } else {
              self.ty2(&t.t2, env, depth)
            }
          }
          ("ne", Some(l)) => {
            if self.t.chance(1, 3) {
              Self::lit_val(&l)
            } else {
              self.ty2(&t.t2, env, depth)
            }
          }
          ("and", _) | ("within", _) => {
            if self.t.flag() {
              self.ty2(&t.t2, env, depth)
            } else {
              self.ty2(rhs, env, depth)
            }
          }
          _ => self.ty2(&t.t2, env, depth),
        }
      }
    }
  }

  fn ty2(&mut self, t: &Ty2, env: usize, depth: usize) -> CVal {
    self.fuel = self.fuel.saturating_sub(1);
    match t {
      Ty2::Lit(l) => Self::lit_val(l),
      Ty2::Name { name, args } => self.named(name, args, env, depth),
      Ty2::Paren(t) => self.ty(t, env, depth),
      Ty2::Any => self.any_value(depth.min(2)),
      Ty2::Arr(g) => {
        let mut items = vec![];
        self.seq_group(g, env, depth.saturating_sub(1), &mut items);
        CVal::Array(items)
      }
      Ty2::Map(g) => {
        let mut pairs = vec![];
        self.map_group(g, env, depth.saturating_sub(1), &mut pairs);
        // JSON objects cannot repeat a key: keep the first
        let mut out: Vec<(CVal, CVal)> = vec![];
        for (k, v) in pairs {
          if !out.iter().any(|(x, _)| *x == k) {
            out.push((k, v));
          }
        }
        CVal::Map(out)
      }
      Ty2::Tag { num, ty } => {
        let n = match num {
          Some(TagNum::Lit(k, _)) => *k,
          _ => 99,
        };
        CVal::Tag(n, Box::new(self.ty(ty, env, depth.saturating_sub(1))))
      }
      Ty2::Major { mt, num } => {
        let n = match num {
          Some(TagNum::Lit(k, _)) => Some(*k),
          _ => None,
        };
        match (mt, n) {
          (0, _) => self.prelude("uint", depth),
          (1, _) => self.prelude("nint", depth),
          (2, _) => self.prelude("bstr", depth),
          (3, _) => self.prelude("tstr", depth),
          (4, _) => CVal::Array(vec![]),
          (5, _) => CVal::Map(vec![]),
          (6, k) => CVal::Tag(k.unwrap_or(7), Box::new(CVal::Int(1))),
          (7, Some(k)) if k <= 255 => CVal::Simple(k as u8),
          _ => {
            if self.t.flag() {
              CVal::bool(true)
            } else {
              CVal::f(1.5)
            }
          }
        }
      }
      Ty2::Unwrap { name, args } => self.named(name, args, env, depth),
      Ty2::ChoiceInline(g) => {
        // one of the group's entry types / values
        let ents: Vec<&Ent> = g.0.iter().flatten().collect();
        if ents.is_empty() {
          return CVal::null();
        }
        let e = *self.t.pick(&ents);
        match &e.kind {
          EntKind::Val { ty, .. } => self.ty(ty, env, depth),
          _ => CVal::null(),
        }
      }
      Ty2::ChoiceName { name, .. } => {
        let defs: Vec<&'s RuleM> = self.schema.0.iter().filter(|r| &r.name == name).collect();
        if defs.is_empty() {
          return CVal::null();
        }
        let r = *self.t.pick(&defs);
        match &r.body {
          Body::Grp(Ent { kind: EntKind::Val { ty, .. }, .. }) => self.ty(ty, 0, depth),
          Body::Grp(Ent { kind: EntKind::Inline(g), .. }) => {
            let ents: Vec<&Ent> = g.0.iter().flatten().collect();
            if ents.is_empty() {
              return CVal::null();
            }
            match &self.t.pick(&ents).kind {
              EntKind::Val { ty, .. } => self.ty(ty, 0, depth),
              _ => CVal::null(),
            }
          }
          _ => CVal::null(),
        }
      }
    }
  }

  fn count(&mut self, occ: &Option<Occ>, depth: usize) -> u64 {
    let (min, max) = occ_bounds(occ);
    // out of budget or at the depth bound: the minimum, so that documents stay shallow
    if self.fuel == 0 || depth == 0 {
      return min.min(3);
    }
    let hi = max.unwrap_or(min + 2).min(min + 2);
    let c = min + self.t.below((hi - min + 1) as usize) as u64;
    c.min(6)
  }

  fn seq_group(&mut self, g: &Grp, env: usize, depth: usize, out: &mut Vec<CVal>) {
    if g.0.is_empty() {
      return;
    }
    let i = self.t.below(g.0.len());
    for e in &g.0[i] {
      self.seq_entry(e, env, depth, out);
    }
  }

  fn seq_entry(&mut self, e: &Ent, env: usize, depth: usize, out: &mut Vec<CVal>) {
    let n = self.count(&e.occ, depth);
    for _ in 0..n {
      if out.len() > 12 {
        return;
      }
      match &e.kind {
        EntKind::Inline(g) => self.seq_group(g, env, depth, out),
        EntKind::Ref { name, args } => self.seq_name(name, args, env, depth, out),
        EntKind::Val { key: None, ty } if ty.0.len() == 1 && ty.0[0].op.is_none() && matches!(ty.0[0].t2, Ty2::Name { .. }) => {
          if let Ty2::Name { name, args } = &ty.0[0].t2 {
            self.seq_name(name, args, env, depth, out)
          }
        }
        EntKind::Val { ty, .. } => out.push(self.ty(ty, env, depth)),
      }
    }
  }

  fn group_defs(&self, name: &str) -> Vec<&'s RuleM> {
    self.schema.0.iter().filter(|r| r.name == name && matches!(r.body, Body::Grp(_))).collect()
  }

  fn seq_name(&mut self, name: &str, args: &[Ty1], env: usize, depth: usize, out: &mut Vec<CVal>) {
    let defs = self.group_defs(name);
    if self.resolve_param(name, env).is_none() && !defs.is_empty() {
      let r = *self.t.pick(&defs);
      if let Body::Grp(ent) = &r.body {
        let fl = self.frames.len();
        let e2 = if r.params.is_empty() {
          0
        } else {
          self.frames.push((r.params.clone(), args.to_vec(), env));
          fl
        };
        self.fuel = self.fuel.saturating_sub(1);
        if self.fuel > 0 || occ_bounds(&ent.occ).0 > 0 {
          self.seq_entry(ent, e2, depth, out);
        }
        self.frames.truncate(fl);
      }
    } else {
      out.push(self.named(name, args, env, depth));
    }
  }

  fn key_value(&mut self, k: &Key, env: usize, depth: usize, taken: &[(CVal, CVal)]) -> CVal {
    match k {
      Key::Bare(b) => CVal::Text(b.clone()),
      Key::Val(l) => Self::lit_val(l),
      Key::Arrow { t1, .. } => {
        // try a few times to find a key that is not taken yet
        let mut v = self.ty1(t1, env, depth.min(1));
        for i in 0..3 {
          if !taken.iter().any(|(x, _)| *x == v) {
            break;
          }
          v = match &v {
            CVal::Text(s) => CVal::Text(format!("{}{}", s, i)),
            CVal::Int(n) => CVal::Int(n + 1 + i as i128),
            _ => self.ty1(t1, env, depth.min(1)),
          };
        }
        if self.json && !matches!(v, CVal::Text(_)) {
          v = CVal::Text(v.diag());
        }
        v
      }
    }
  }

  fn map_group(&mut self, g: &Grp, env: usize, depth: usize, out: &mut Vec<(CVal, CVal)>) {
    if g.0.is_empty() {
      return;
    }
    let i = self.t.below(g.0.len());
    for e in &g.0[i] {
      self.map_entry(e, env, depth, out);
    }
  }

  fn map_entry(&mut self, e: &Ent, env: usize, depth: usize, out: &mut Vec<(CVal, CVal)>) {
    let n = self.count(&e.occ, depth);
    for _ in 0..n {
      if out.len() > 7 {
        return;
      }
      match &e.kind {
        EntKind::Val { key: Some(k), ty } => {
          let kv = self.key_value(k, env, depth, out);
          let v = self.ty(ty, env, depth);
          out.push((kv, v));
        }
        EntKind::Inline(g) => self.map_group(g, env, depth, out),
        EntKind::Ref { name, args } => self.map_name(name, args, env, depth, out),
        EntKind::Val { key: None, ty } => {
          if let Some(Ty1 { t2: Ty2::Name { name, args }, op: None }) = ty.0.first() {
            self.map_name(name, args, env, depth, out)
          }
        }
      }
    }
  }

  fn map_name(&mut self, name: &str, args: &[Ty1], env: usize, depth: usize, out: &mut Vec<(CVal, CVal)>) {
    let defs = self.group_defs(name);
    if defs.is_empty() {
      return;
    }
    let r = *self.t.pick(&defs);
    if let Body::Grp(ent) = &r.body {
      let fl = self.frames.len();
      let e2 = if r.params.is_empty() {
        0
      } else {
        self.frames.push((r.params.clone(), args.to_vec(), env));
        fl
      };
      self.fuel = self.fuel.saturating_sub(1);
      if self.fuel > 0 || occ_bounds(&ent.occ).0 > 0 {
        self.map_entry(ent, e2, depth, out);
      }
      self.frames.truncate(fl);
    }
  }
}

// ---------------------------------------------------------------------------------------
// Near-miss edits
// ---------------------------------------------------------------------------------------

fn count_nodes(v: &CVal) -> usize {
  1 + match v {
    CVal::Array(a) => a.iter().map(count_nodes).sum(),
    CVal::Map(m) => m.iter().map(|(_, v)| count_nodes(v)).sum(),
    CVal::Tag(_, x) => count_nodes(x),
    _ => 0,
  }
}

fn edit_at(v: &mut CVal, idx: &mut usize, f: &mut dyn FnMut(&mut CVal)) -> bool {
  if *idx == 0 {
    f(v);
    return true;
  }
  *idx -= 1;
  match v {
    CVal::Array(a) => {
      for x in a.iter_mut() {
        if edit_at(x, idx, f) {
          return true;
        }
      }
      false
    }
    CVal::Map(m) => {
      for (_, x) in m.iter_mut() {
        if edit_at(x, idx, f) {
          return true;
        }
      }
      false
    }
    CVal::Tag(_, x) => edit_at(x, idx, f),
    _ => false,
  }
}

fn scalar_other_kind(t: &mut Tape, v: &CVal, json: bool) -> CVal {
  let opts: Vec<CVal> = vec![
    CVal::Int(1),
    CVal::Int(-1),
    CVal::Text("a".into()),
    CVal::Text("".into()),
    CVal::f(1.5),
    CVal::bool(true),
    CVal::bool(false),
    CVal::null(),
    CVal::Array(vec![]),
    CVal::Map(vec![]),
  ];
  let mut extra = vec![];
  if !json {
    extra = vec![CVal::Bytes(vec![1]), CVal::Simple(23), CVal::Tag(1, Box::new(CVal::Int(0))), CVal::Simple(16)];
  }
  let all: Vec<CVal> = opts.into_iter().chain(extra).filter(|x| std::mem::discriminant(x) != std::mem::discriminant(v) || x != v).collect();
  t.pick(&all).clone()
}

/// One edit of a document. Returns the edited document and the kind of edit.
pub fn near_miss(t: &mut Tape, v: &CVal, json: bool) -> (CVal, &'static str) {
  let mut out = v.clone();
  let n = count_nodes(v);
  let mut idx = t.below(n);
  let kind_sel = t.below(10);
  let r1 = t.below(1000);
  let r2 = t.below(1000);
  let repl = scalar_other_kind(t, &CVal::null(), json);
  let mut kind: &'static str = "noop";
  let mut f = |x: &mut CVal| {
    match x {
      CVal::Int(i) => match kind_sel {
        0..=2 => {
          *i += 1;
          kind = "int+1";
        }
        3..=4 => {
          *i -= 1;
          kind = "int-1";
        }
        5 => {
          *i = -*i - 1;
          kind = "int_negate";
        }
        6 => {
          *x = CVal::f(*i as f64 + 0.5);
          kind = "int_to_float";
        }
        _ => {
          *x = repl.clone();
          kind = "scalar_kind";
        }
      },
      CVal::Text(s) => match kind_sel {
        0..=2 => {
          s.push('x');
          kind = "text_append";
        }
        3 => {
          s.pop();
          kind = "text_pop";
        }
        4 => {
          *s = s.to_uppercase();
          kind = "text_upper";
        }
        _ => {
          *x = repl.clone();
          kind = "scalar_kind";
        }
      },
      CVal::Float(b) => match kind_sel {
        0..=3 => {
          *b = (f64::from_bits(*b) + 1.0).to_bits();
          kind = "float+1";
        }
        4 => {
          *x = CVal::Int(f64::from_bits(*b) as i128);
          kind = "float_to_int";
        }
        _ => {
          *x = repl.clone();
          kind = "scalar_kind";
        }
      },
      CVal::Bytes(b) => match kind_sel {
        0..=3 => {
          b.push(7);
          kind = "bytes_append";
        }
        4 => {
          b.pop();
          kind = "bytes_pop";
        }
        _ => {
          *x = repl.clone();
          kind = "scalar_kind";
        }
      },
      CVal::Simple(_) => {
        *x = repl.clone();
        kind = "scalar_kind";
      }
      CVal::Tag(n, inner) => match kind_sel {
        0..=3 => {
          *n += 1;
          kind = "tag+1";
        }
        4..=6 => {
          *x = (**inner).clone();
          kind = "untag";
        }
        _ => {
          *x = repl.clone();
          kind = "scalar_kind";
        }
      },
      CVal::Array(a) => match kind_sel {
        0 | 1 if !a.is_empty() => {
          a.remove(r1 % a.len());
          kind = "array_drop";
        }
        2 | 3 if !a.is_empty() => {
          let i = r1 % a.len();
          let c = a[i].clone();
          a.insert(i, c);
          kind = "array_dup";
        }
        4 | 5 => {
          let i = r1 % (a.len() + 1);
          a.insert(i, repl.clone());
          kind = "array_insert";
        }
        6 | 7 if a.len() >= 2 => {
          let i = r1 % (a.len() - 1);
          a.swap(i, i + 1);
          kind = "array_swap";
        }
        8 => {
          *x = CVal::Map(vec![]);
          kind = "array_to_map";
        }
        _ => {
          a.push(repl.clone());
          kind = "array_append";
        }
      },
      CVal::Map(m) => match kind_sel {
        0..=2 if !m.is_empty() => {
          m.remove(r1 % m.len());
          kind = "map_remove";
        }
        3 | 4 => {
          let k = CVal::Text(["zz", "a", "b", "extra"][r2 % 4].to_string());
          if !m.iter().any(|(x, _)| *x == k) {
            m.push((k, repl.clone()));
            kind = "map_add";
          }
        }
        5 | 6 if !m.is_empty() => {
          let i = r1 % m.len();
          let nk = match &m[i].0 {
            CVal::Text(s) => CVal::Text(format!("{}_", s)),
            CVal::Int(n) => CVal::Int(n + 100),
            other => other.clone(),
          };
          if !m.iter().any(|(x, _)| *x == nk) {
            m[i].0 = nk;
            kind = "map_rename";
          }
        }
        7 if !m.is_empty() && !json => {
          let i = r1 % m.len();
          m[i].0 = CVal::Int(r2 as i128 % 5);
          kind = "map_key_kind";
        }
        8 => {
          *x = CVal::Array(vec![]);
          kind = "map_to_array";
        }
        _ => {
          if !m.is_empty() {
            let i = r1 % m.len();
            m[i].1 = repl.clone();
            kind = "map_value_replace";
          }
        }
      },
    }
  };
  edit_at(&mut out, &mut idx, &mut f);
  (out, kind)
}
