//! The acceptance oracle of C03 as ABNF text: RFC 8610 Appendix B with the updates of RFC 9682 (empty
//! document, escapes, non-literal tag numbers), the leniencies the crate's grammar file documents, and control
//! operator names limited to the registered names the crate documents.
use crate::earley::Grammar;

/// RFC 8610 Appendix B as updated by RFC 9682 Appendix A.
pub const RFC_ABNF: &str = r##"
cddl = S *(rule S)
rule = typename [genericparm] S assignt S type
     / groupname [genericparm] S assigng S grpent

typename = id
groupname = id

assignt = "=" / "/="
assigng = "=" / "//="

genericparm = "<" S id S *("," S id S ) ">"
genericarg = "<" S type1 S *("," S type1 S ) ">"

type = type1 *(S "/" S type1)

type1 = type2 [S (rangeop / ctlop) S type2]

type2 = value
      / typename [genericarg]
      / "(" S type S ")"
      / "{" S group S "}"
      / "[" S group S "]"
      / "~" S typename [genericarg]
      / "&" S "(" S group S ")"
      / "&" S groupname [genericarg]
      / "#" "6" ["." head-number] "(" S type S ")"
      / "#" "7" ["." head-number]
      / "#" DIGIT ["." uint]
      / "#"
head-number = uint / ("<" type ">")

rangeop = "..." / ".."
ctlop = "." ctlname

group = grpchoice *(S "//" S grpchoice)
grpchoice = *(grpent optcom)
grpent = [occur S] [memberkey S] type
       / [occur S] groupname [genericarg]
       / [occur S] "(" S group S ")"
memberkey = type1 S ["^" S] "=>"
          / bareword S ":"
          / value S ":"
bareword = id
optcom = S ["," S]
occur = [uint] "*" [uint] / "+" / "?"
uint = DIGIT1 *DIGIT / "0x" 1*HEXDIG / "0b" 1*BINDIG / "0"
value = number / text / bytes
int = ["-"] uint
number = hexfloat / (int ["." fraction] ["e" exponent ])
hexfloat = ["-"] "0x" 1*HEXDIG ["." 1*HEXDIG] "p" exponent
fraction = 1*DIGIT
exponent = ["+"/"-"] 1*DIGIT
text = %x22 *SCHAR %x22
SCHAR = %x20-21 / %x23-5B / %x5D-7E / NONASCII / SESC
SESC = "\" ( %x22 / "/" / "\" / %s"b" / %s"f" / %s"n" / %s"r" / %s"t" / (%s"u" hexchar) )
hexchar = "{" (1*"0" [ hexscalar ] / hexscalar) "}" / non-surrogate / (high-surrogate "\" %s"u" low-surrogate)
non-surrogate = ((DIGIT / "A"/"B"/"C" / "E"/"F") 3HEXDIG) / ("D" %x30-37 2HEXDIG )
high-surrogate = "D" ("8"/"9"/"A"/"B") 2HEXDIG
low-surrogate = "D" ("C"/"D"/"E"/"F") 2HEXDIG
hexscalar = "10" 4HEXDIG / HEXDIG1 4HEXDIG / non-surrogate / 1*3HEXDIG
bytes = [bsqual] %x27 *BCHAR %x27
BCHAR = %x20-26 / %x28-5B / %x5D-7E / NONASCII / SESC / "\'" / CRLF
bsqual = "h" / "b64"
id = EALPHA *(*("-" / ".") (EALPHA / DIGIT))
ALPHA = %x41-5A / %x61-7A
EALPHA = ALPHA / "@" / "_" / "$"
DIGIT = %x30-39
DIGIT1 = %x31-39
HEXDIG = DIGIT / "A" / "B" / "C" / "D" / "E" / "F"
HEXDIG1 = DIGIT1 / "A" / "B" / "C" / "D" / "E" / "F"
BINDIG = %x30-31
S = *WS
WS = SP / NL
SP = %x20
NL = COMMENT / CRLF
COMMENT = ";" *PCHAR CRLF
PCHAR = %x20-7E / NONASCII
NONASCII = %xA0-D7FF / %xE000-10FFFD
CRLF = %x0A / %x0D.0A
"##;

/// Leniencies documented in the crate's grammar file (cddl.pest) and the registered control names.
pub const CRATE_ADDITIONS: &str = r##"
; tab counts as white space
SP =/ %x09
; a final comment needs no line break
cddl =/ S *(rule S) ";" *PCHAR
; '#(type)': a tag without number
type2 =/ "#" "(" S type S ")"
; h"...": the crate's hex-quoted form; its grammar rule admits every character but the closing quote
bytes =/ %s"h" %x22 *HQCHAR %x22
HQCHAR = %x00-21 / %x23-D7FF / %xE000-10FFFF
; registered control operators (RFC 8610, RFC 9165, RFC 9741, cddl-freezer)
ctlname = %s"size" / %s"bits" / %s"regexp" / %s"pcre" / %s"iregexp" / %s"cbor" / %s"cborseq" / %s"within" / %s"and"
        / %s"lt" / %s"le" / %s"gt" / %s"ge" / %s"eq" / %s"ne" / %s"default" / %s"cat" / %s"det" / %s"plus"
        / %s"abnfb" / %s"abnf" / %s"feature" / %s"b64u-sloppy" / %s"b64c-sloppy" / %s"b64u" / %s"b64c" / %s"hexuc"
        / %s"hexlc" / %s"hex" / %s"base10" / %s"printf" / %s"json" / %s"join" / %s"b32" / %s"h32" / %s"b45"
        / %s"bitfield"
"##;

/// Relaxations that stand for open findings (over-acceptance of the crate that is recorded, not repaired):
/// (exclusion name, ABNF additions).  With the finding open the oracle accepts these texts too, so that any
/// *other* disagreement is still reported.
pub const RELAXATIONS: &[(&str, &str)] = &[
  ("c03:ws_before_generic_args", "type2 =/ typename WS S genericarg / \"~\" S typename WS S genericarg / \"&\" S groupname WS S genericarg\ngrpent =/ [occur S] groupname WS S genericarg\nrule =/ typename WS S genericparm S assignt S type / groupname WS S genericparm S assigng S grpent\n"),
  ("c03:lone_cr_whitespace", "WS =/ %x0D\nPCHAR =/ %x0D\n"),
  ("c03:tag6_type_head_without_content", "type2 =/ \"#\" \"6\" \".\" head-number\n"),
  ("c03:ws_in_tag_head_type", "head-number =/ \"<\" S type S \">\"\n"),
  ("c03:escaped_quote_in_bytes", "BCHAR =/ \"\\\"\n"),
  ("c03:any_escape_in_bytes", "BCHAR =/ \"\\\" %x20-7E / \"\\\" NONASCII\n"),
  ("c03:control_chars_in_text", "SCHAR =/ %x00-1F / %x7F-9F\nBCHAR =/ %x00-09 / %x0B-1F / %x7F-9F\nPCHAR =/ %x00-09 / %x0B-0C / %x0E-1F / %x7F-9F\n"),
];

/// Open finding C03-F12: the type inside `#6.<...>` / `#7.<...>` is kept as raw text and its text literals are
/// never checked, so escapes that RFC 9682 excludes (lone surrogates, \u{110000}) are accepted there. Added to the
/// relaxed oracle only for texts that contain ".<".
pub const UNCHECKED_ESCAPES: (&str, &str) = (
  "c03:unchecked_text_in_tag_head_type",
  "SESC =/ \"\\\" %s\"u\" 4HEXDIG / \"\\\" %s\"u\" \"{\" 1*HEXDIG \"}\"\n",
);

pub fn grammar() -> Grammar {
  Grammar::from_abnf(&format!("{}\n{}", RFC_ABNF, CRATE_ADDITIONS))
}

/// `grammar_with` plus the escape relaxation of C03-F12
pub fn grammar_with_unchecked_escapes(active: &dyn Fn(&str) -> bool) -> Grammar {
  let mut t = format!("{}\n{}", RFC_ABNF, CRATE_ADDITIONS);
  for (name, add) in RELAXATIONS {
    if active(name) {
      t.push_str(add);
    }
  }
  t.push_str(UNCHECKED_ESCAPES.1);
  Grammar::from_abnf(&t)
}

/// the oracle with the relaxations whose names `active` accepts
pub fn grammar_with(active: &dyn Fn(&str) -> bool) -> Grammar {
  let mut t = format!("{}\n{}", RFC_ABNF, CRATE_ADDITIONS);
  for (name, add) in RELAXATIONS {
    if active(name) {
      t.push_str(add);
    }
  }
  Grammar::from_abnf(&t)
}

// ---------------------------------------------------------------------------------------
// longest-match scanners for the token-like nonterminals (the "strict reading": identifiers and numbers are never
// split in the middle)
// ---------------------------------------------------------------------------------------

fn is_ealpha(c: u32) -> bool {
  (0x41..=0x5a).contains(&c) || (0x61..=0x7a).contains(&c) || c == '@' as u32 || c == '_' as u32 || c == '$' as u32
}
fn is_digit(c: u32) -> bool {
  (0x30..=0x39).contains(&c)
}
fn is_hex(c: u32) -> bool {
  is_digit(c) || (0x41..=0x46).contains(&c) || (0x61..=0x66).contains(&c)
}
fn at(c: &[u32], i: usize) -> u32 {
  if i < c.len() {
    c[i]
  } else {
    0
  }
}

pub fn id_end(c: &[u32], o: usize) -> Option<usize> {
  if !is_ealpha(at(c, o)) {
    return None;
  }
  let mut j = o + 1;
  loop {
    let mut k = j;
    while at(c, k) == '-' as u32 || at(c, k) == '.' as u32 {
      k += 1;
    }
    if is_ealpha(at(c, k)) || is_digit(at(c, k)) {
      j = k + 1;
    } else {
      return Some(j);
    }
  }
}

pub fn uint_end(c: &[u32], o: usize) -> Option<usize> {
  if !is_digit(at(c, o)) {
    return None;
  }
  let mut best = o + 1; // "0" or a first DIGIT1
  if at(c, o) != '0' as u32 {
    while is_digit(at(c, best)) {
      best += 1;
    }
    return Some(best);
  }
  let x = at(c, o + 1) | 0x20;
  if x == 'x' as u32 && is_hex(at(c, o + 2)) {
    let mut j = o + 2;
    while is_hex(at(c, j)) {
      j += 1;
    }
    best = best.max(j);
  }
  if x == 'b' as u32 && (at(c, o + 2) == '0' as u32 || at(c, o + 2) == '1' as u32) {
    let mut j = o + 2;
    while at(c, j) == '0' as u32 || at(c, j) == '1' as u32 {
      j += 1;
    }
    best = best.max(j);
  }
  Some(best)
}

fn exponent_end(c: &[u32], o: usize) -> Option<usize> {
  let mut j = o;
  if at(c, j) == '+' as u32 || at(c, j) == '-' as u32 {
    j += 1;
  }
  if !is_digit(at(c, j)) {
    return None;
  }
  while is_digit(at(c, j)) {
    j += 1;
  }
  Some(j)
}

pub fn number_end(c: &[u32], o: usize) -> Option<usize> {
  let s = if at(c, o) == '-' as u32 { o + 1 } else { o };
  let mut best: Option<usize> = None;
  // int ["." fraction] ["e" exponent]
  if let Some(mut j) = uint_end(c, s) {
    if at(c, j) == '.' as u32 && is_digit(at(c, j + 1)) {
      j += 1;
      while is_digit(at(c, j)) {
        j += 1;
      }
    }
    if at(c, j) | 0x20 == 'e' as u32 {
      if let Some(k) = exponent_end(c, j + 1) {
        j = k;
      }
    }
    best = Some(j);
  }
  // hexfloat
  if at(c, s) == '0' as u32 && at(c, s + 1) | 0x20 == 'x' as u32 && is_hex(at(c, s + 2)) {
    let mut j = s + 2;
    while is_hex(at(c, j)) {
      j += 1;
    }
    if at(c, j) == '.' as u32 && is_hex(at(c, j + 1)) {
      j += 1;
      while is_hex(at(c, j)) {
        j += 1;
      }
    }
    if at(c, j) | 0x20 == 'p' as u32 {
      if let Some(k) = exponent_end(c, j + 1) {
        best = Some(best.map(|b| b.max(k)).unwrap_or(k));
      }
    }
  }
  best
}

/// derivable under the strict reading (longest-match identifiers, unsigned integers and numbers)
pub fn strict(g: &Grammar, text: &str) -> bool {
  g.recognizes_longest("cddl", text, &[("id", &id_end), ("uint", &uint_end), ("number", &number_end)])
}
