//! `parents`: the (child, syntactic parent) pairs of a `cddl::ast::CDDL`, by an own walk of the AST, and node
//! identity (same variant, same address).
use cddl::ast::*;
use cddl::token::ControlOperator;

pub type Node<'a> = CDDLType<'a, 'a>;

pub struct Pair<'a> {
  pub child: Node<'a>,
  pub parent: Node<'a>,
  /// path of field names from the root, for messages
  pub path: String,
}

pub fn kind(n: &Node) -> &'static str {
  match n {
    CDDLType::CDDL(_) => "CDDL",
    CDDLType::Rule(_) => "Rule",
    CDDLType::TypeRule(_) => "TypeRule",
    CDDLType::GroupRule(_) => "GroupRule",
    CDDLType::Group(_) => "Group",
    CDDLType::GroupChoice(_) => "GroupChoice",
    CDDLType::GenericParams(_) => "GenericParams",
    CDDLType::GenericParam(_) => "GenericParam",
    CDDLType::GenericArgs(_) => "GenericArgs",
    CDDLType::GenericArg(_) => "GenericArg",
    CDDLType::GroupEntry(_) => "GroupEntry",
    CDDLType::Identifier(_) => "Identifier",
    CDDLType::Type(_) => "Type",
    CDDLType::TypeChoice(_) => "TypeChoice",
    CDDLType::Type1(_) => "Type1",
    CDDLType::Type2(_) => "Type2",
    CDDLType::Operator(_) => "Operator",
    CDDLType::RangeCtlOp(_) => "RangeCtlOp",
    CDDLType::ControlOperator(_) => "ControlOperator",
    CDDLType::Occurrence(_) => "Occurrence",
    CDDLType::Occur(_) => "Occur",
    CDDLType::Value(_) => "Value",
    CDDLType::ValueMemberKeyEntry(_) => "ValueMemberKeyEntry",
    CDDLType::TypeGroupnameEntry(_) => "TypeGroupnameEntry",
    CDDLType::MemberKey(_) => "MemberKey",
    CDDLType::NonMemberKey(_) => "NonMemberKey",
  }
}

fn addr<T>(r: &T) -> usize {
  r as *const T as usize
}

/// identity of a node: variant + address (None for the by-value variants)
pub fn ident(n: &Node) -> Option<(&'static str, usize)> {
  let a = match n {
    CDDLType::CDDL(x) => addr(*x),
    CDDLType::Rule(x) => addr(*x),
    CDDLType::TypeRule(x) => addr(*x),
    CDDLType::GroupRule(x) => addr(*x),
    CDDLType::Group(x) => addr(*x),
    CDDLType::GroupChoice(x) => addr(*x),
    CDDLType::GenericParams(x) => addr(*x),
    CDDLType::GenericParam(x) => addr(*x),
    CDDLType::GenericArgs(x) => addr(*x),
    CDDLType::GenericArg(x) => addr(*x),
    CDDLType::GroupEntry(x) => addr(*x),
    CDDLType::Identifier(x) => addr(*x),
    CDDLType::Type(x) => addr(*x),
    CDDLType::TypeChoice(x) => addr(*x),
    CDDLType::Type1(x) => addr(*x),
    CDDLType::Type2(x) => addr(*x),
    CDDLType::Operator(x) => addr(*x),
    CDDLType::RangeCtlOp(x) => addr(*x),
    CDDLType::ControlOperator(x) => addr(*x),
    CDDLType::Occurrence(x) => addr(*x),
    CDDLType::ValueMemberKeyEntry(x) => addr(*x),
    CDDLType::TypeGroupnameEntry(x) => addr(*x),
    CDDLType::MemberKey(x) => addr(*x),
    CDDLType::NonMemberKey(x) => addr(*x),
    CDDLType::Occur(_) | CDDLType::Value(_) => return None,
  };
  Some((kind(n), a))
}

pub fn same(a: &Node, b: &Node) -> bool {
  match (ident(a), ident(b)) {
    (Some(x), Some(y)) => x == y,
    _ => false,
  }
}

struct W<'a> {
  out: Vec<Pair<'a>>,
}

impl<'a> W<'a> {
  fn put(&mut self, child: Node<'a>, parent: Node<'a>, path: &str) {
    self.out.push(Pair { child, parent, path: path.to_string() });
  }

  fn gparams(&mut self, g: &'a Option<GenericParams<'a>>, parent: Node<'a>, path: &str) {
    if let Some(g) = g {
      let p = format!("{}.generic_params", path);
      self.put(CDDLType::GenericParams(g), parent, &p);
      for (i, gp) in g.params.iter().enumerate() {
        let pi = format!("{}[{}]", p, i);
        self.put(CDDLType::GenericParam(gp), CDDLType::GenericParams(g), &pi);
        self.put(CDDLType::Identifier(&gp.param), CDDLType::GenericParam(gp), &format!("{}.param", pi));
      }
    }
  }

  fn gargs(&mut self, g: &'a Option<GenericArgs<'a>>, parent: Node<'a>, path: &str) {
    if let Some(g) = g {
      let p = format!("{}.generic_args", path);
      self.put(CDDLType::GenericArgs(g), parent, &p);
      for (i, ga) in g.args.iter().enumerate() {
        let pi = format!("{}[{}]", p, i);
        self.put(CDDLType::GenericArg(ga), CDDLType::GenericArgs(g), &pi);
        self.put(CDDLType::Type1(&ga.arg), CDDLType::GenericArg(ga), &format!("{}.arg", pi));
        self.type1(&ga.arg, &format!("{}.arg", pi));
      }
    }
  }

  fn ty(&mut self, t: &'a Type<'a>, path: &str) {
    for (i, tc) in t.type_choices.iter().enumerate() {
      let p = format!("{}.type_choices[{}]", path, i);
      self.put(CDDLType::TypeChoice(tc), CDDLType::Type(t), &p);
      self.put(CDDLType::Type1(&tc.type1), CDDLType::TypeChoice(tc), &format!("{}.type1", p));
      self.type1(&tc.type1, &format!("{}.type1", p));
    }
  }

  fn type1(&mut self, t1: &'a Type1<'a>, path: &str) {
    if let Some(op) = &t1.operator {
      let p = format!("{}.operator", path);
      self.put(CDDLType::Operator(op), CDDLType::Type1(t1), &p);
      self.put(CDDLType::Type2(&op.type2), CDDLType::Operator(op), &format!("{}.type2", p));
      self.put(CDDLType::RangeCtlOp(&op.operator), CDDLType::Operator(op), &format!("{}.operator", p));
      if let RangeCtlOp::CtlOp { ctrl, .. } = &op.operator {
        let c: &'a ControlOperator = ctrl;
        self.put(CDDLType::ControlOperator(c), CDDLType::RangeCtlOp(&op.operator), &format!("{}.operator.ctrl", p));
      }
      self.type2(&op.type2, &format!("{}.type2", p));
    }
    self.put(CDDLType::Type2(&t1.type2), CDDLType::Type1(t1), &format!("{}.type2", path));
    self.type2(&t1.type2, &format!("{}.type2", path));
  }

  fn type2(&mut self, t2: &'a Type2<'a>, path: &str) {
    let me = CDDLType::Type2(t2);
    match t2 {
      Type2::Typename { ident, generic_args, .. } => {
        self.put(CDDLType::Identifier(ident), me.clone(), &format!("{}.ident", path));
        self.gargs(generic_args, me, path);
      }
      Type2::ParenthesizedType { pt, .. } => {
        self.put(CDDLType::Type(pt), me, &format!("{}.pt", path));
        self.ty(pt, &format!("{}.pt", path));
      }
      Type2::Map { group, .. } | Type2::Array { group, .. } | Type2::ChoiceFromInlineGroup { group, .. } => {
        self.put(CDDLType::Group(group), me, &format!("{}.group", path));
        self.group(group, &format!("{}.group", path));
      }
      Type2::Unwrap { ident, generic_args, .. } => {
        self.put(CDDLType::Identifier(ident), me.clone(), &format!("{}.ident", path));
        self.gargs(generic_args, me, path);
      }
      Type2::ChoiceFromGroup { ident, generic_args, .. } => {
        self.put(CDDLType::Identifier(ident), me.clone(), &format!("{}.ident", path));
        self.gargs(generic_args, me, path);
      }
      Type2::TaggedData { t, .. } => {
        self.put(CDDLType::Type(t), me, &format!("{}.t", path));
        self.ty(t, &format!("{}.t", path));
      }
      _ => {}
    }
  }

  fn group(&mut self, g: &'a Group<'a>, path: &str) {
    for (i, gc) in g.group_choices.iter().enumerate() {
      let p = format!("{}.group_choices[{}]", path, i);
      self.put(CDDLType::GroupChoice(gc), CDDLType::Group(g), &p);
      for (j, (ge, _)) in gc.group_entries.iter().enumerate() {
        let pj = format!("{}.group_entries[{}]", p, j);
        self.put(CDDLType::GroupEntry(ge), CDDLType::GroupChoice(gc), &pj);
        self.entry(ge, &pj);
      }
    }
  }

  fn occ(&mut self, o: &'a Option<Occurrence<'a>>, parent: Node<'a>, path: &str) {
    if let Some(o) = o {
      self.put(CDDLType::Occurrence(o), parent, &format!("{}.occur", path));
      // by-value child; its span makes it unique in the document
      self.put(CDDLType::Occur(o.occur), CDDLType::Occurrence(o), &format!("{}.occur.occur", path));
    }
  }

  fn entry(&mut self, e: &'a GroupEntry<'a>, path: &str) {
    let me = CDDLType::GroupEntry(e);
    match e {
      GroupEntry::ValueMemberKey { ge, .. } => {
        let p = format!("{}.ge", path);
        let v: &'a ValueMemberKeyEntry<'a> = ge;
        self.put(CDDLType::ValueMemberKeyEntry(v), me, &p);
        self.occ(&v.occur, CDDLType::ValueMemberKeyEntry(v), &p);
        if let Some(mk) = &v.member_key {
          let pm = format!("{}.member_key", p);
          self.put(CDDLType::MemberKey(mk), CDDLType::ValueMemberKeyEntry(v), &pm);
          match mk {
            MemberKey::Type1 { t1, .. } => {
              let t: &'a Type1<'a> = t1;
              self.put(CDDLType::Type1(t), CDDLType::MemberKey(mk), &format!("{}.t1", pm));
              self.type1(t, &format!("{}.t1", pm));
            }
            MemberKey::Bareword { ident, .. } => self.put(CDDLType::Identifier(ident), CDDLType::MemberKey(mk), &format!("{}.ident", pm)),
            _ => {}
          }
        }
        self.put(CDDLType::Type(&v.entry_type), CDDLType::ValueMemberKeyEntry(v), &format!("{}.entry_type", p));
        self.ty(&v.entry_type, &format!("{}.entry_type", p));
      }
      GroupEntry::TypeGroupname { ge, .. } => {
        let p = format!("{}.ge", path);
        self.put(CDDLType::TypeGroupnameEntry(ge), me, &p);
        self.occ(&ge.occur, CDDLType::TypeGroupnameEntry(ge), &p);
        self.put(CDDLType::Identifier(&ge.name), CDDLType::TypeGroupnameEntry(ge), &format!("{}.name", p));
        self.gargs(&ge.generic_args, CDDLType::TypeGroupnameEntry(ge), &p);
      }
      GroupEntry::InlineGroup { occur, group, .. } => {
        self.occ(occur, me.clone(), path);
        self.put(CDDLType::Group(group), me, &format!("{}.group", path));
        self.group(group, &format!("{}.group", path));
      }
    }
  }
}

/// every (child, parent) pair of the document, in source order
pub fn pairs<'a>(c: &'a CDDL<'a>) -> Vec<Pair<'a>> {
  let mut w = W { out: vec![] };
  for (i, r) in c.rules.iter().enumerate() {
    let p = format!("rules[{}]", i);
    w.put(CDDLType::Rule(r), CDDLType::CDDL(c), &p);
    match r {
      Rule::Type { rule, .. } => {
        w.put(CDDLType::TypeRule(rule), CDDLType::Rule(r), &format!("{}.rule", p));
        w.put(CDDLType::Identifier(&rule.name), CDDLType::TypeRule(rule), &format!("{}.rule.name", p));
        w.gparams(&rule.generic_params, CDDLType::TypeRule(rule), &format!("{}.rule", p));
        w.put(CDDLType::Type(&rule.value), CDDLType::TypeRule(rule), &format!("{}.rule.value", p));
        w.ty(&rule.value, &format!("{}.rule.value", p));
      }
      Rule::Group { rule, .. } => {
        let gr: &'a GroupRule<'a> = rule;
        w.put(CDDLType::GroupRule(gr), CDDLType::Rule(r), &format!("{}.rule", p));
        w.put(CDDLType::Identifier(&gr.name), CDDLType::GroupRule(gr), &format!("{}.rule.name", p));
        w.gparams(&gr.generic_params, CDDLType::GroupRule(gr), &format!("{}.rule", p));
        w.put(CDDLType::GroupEntry(&gr.entry), CDDLType::GroupRule(gr), &format!("{}.rule.entry", p));
        w.entry(&gr.entry, &format!("{}.rule.entry", p));
      }
    }
  }
  w.out
}
