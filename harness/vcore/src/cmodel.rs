//! Syntax model of CDDL shared by all checks, with its own printer (never the crate's
//! `Display`) and the skeleton the crate's AST is expected to have for the printed text.
use crate::engine::Tape;
use std::fmt::Write;

#[derive(Clone, Debug, PartialEq)]
pub enum BytesKind {
  Utf8,
  Hex,
  B64,
}

/// A literal: the value it denotes (by construction) and the spelling to print.
#[derive(Clone, Debug, PartialEq)]
pub enum Lit {
  Int { v: i128, sp: String },
  Float { v: f64, sp: String },
  Text { v: String, sp: String },
  Bytes { kind: BytesKind, v: Vec<u8>, sp: String },
}

impl Lit {
  pub fn int(v: i128) -> Lit {
    Lit::Int { v, sp: v.to_string() }
  }
  pub fn text(v: &str) -> Lit {
    Lit::Text { v: v.to_string(), sp: spell_text_plain(v) }
  }
  pub fn float(v: f64) -> Lit {
    Lit::Float { v, sp: spell_float_plain(v) }
  }
  pub fn bytes_hex(v: &[u8]) -> Lit {
    let mut sp = String::from("h'");
    for b in v {
      let _ = write!(sp, "{:02x}", b);
    }
    sp.push('\'');
    Lit::Bytes { kind: BytesKind::Hex, v: v.to_vec(), sp }
  }
  pub fn bytes_utf8(s: &str) -> Lit {
    Lit::Bytes { kind: BytesKind::Utf8, v: s.as_bytes().to_vec(), sp: format!("'{}'", s) }
  }
  pub fn spelling(&self) -> &str {
    match self {
      Lit::Int { sp, .. } | Lit::Float { sp, .. } | Lit::Text { sp, .. } | Lit::Bytes { sp, .. } => sp,
    }
  }
}

/// Minimal-escape spelling of a text literal (escapes `"`, `\` and C0 controls).
pub fn spell_text_plain(v: &str) -> String {
  let mut s = String::from("\"");
  for c in v.chars() {
    match c {
      '"' => s.push_str("\\\""),
      '\\' => s.push_str("\\\\"),
      '\n' => s.push_str("\\n"),
      '\r' => s.push_str("\\r"),
      '\t' => s.push_str("\\t"),
      c if (c as u32) < 0x20 || c as u32 == 0x7f => {
        let _ = write!(s, "\\u{:04X}", c as u32);
      }
      c => s.push(c),
    }
  }
  s.push('"');
  s
}

/// A decimal spelling with a fraction for a finite float (`1.0`, `-2.5`, `1.0e300`).
pub fn spell_float_plain(v: f64) -> String {
  let s = format!("{:?}", v);
  if s.contains('e') && !s.contains('.') {
    // Rust prints 1e300; CDDL allows it (int "e" exponent) - keep
    s
  } else {
    s
  }
}

#[derive(Clone, Debug, PartialEq)]
pub enum Op {
  Range { inclusive: bool },
  Ctl(String),
}

#[derive(Clone, Debug, PartialEq)]
pub enum TagNum {
  Lit(u64, String),
  /// `<type>` head
  Ty(Box<Ty>),
}

#[derive(Clone, Debug, PartialEq)]
pub enum Ty2 {
  Lit(Lit),
  Name { name: String, args: Vec<Ty1> },
  Paren(Ty),
  Map(Grp),
  Arr(Grp),
  Unwrap { name: String, args: Vec<Ty1> },
  ChoiceInline(Grp),
  ChoiceName { name: String, args: Vec<Ty1> },
  Tag { num: Option<TagNum>, ty: Ty },
  Major { mt: u8, num: Option<TagNum> },
  Any,
}

#[derive(Clone, Debug, PartialEq)]
pub struct Ty1 {
  pub t2: Ty2,
  pub op: Option<(Op, Ty2)>,
}

impl Ty1 {
  pub fn plain(t2: Ty2) -> Ty1 {
    Ty1 { t2, op: None }
  }
}

#[derive(Clone, Debug, PartialEq)]
pub struct Ty(pub Vec<Ty1>);

impl Ty {
  pub fn one(t2: Ty2) -> Ty {
    Ty(vec![Ty1::plain(t2)])
  }
  pub fn name(n: &str) -> Ty {
    Ty::one(Ty2::Name { name: n.to_string(), args: vec![] })
  }
}

#[derive(Clone, Debug, PartialEq)]
pub enum Occ {
  Opt,
  Star,
  Plus,
  Range(Option<u64>, Option<u64>),
}

#[derive(Clone, Debug, PartialEq)]
pub enum Key {
  Bare(String),
  /// `value :`
  Val(Lit),
  /// `type1 [^] =>`
  Arrow { t1: Ty1, cut: bool },
}

#[derive(Clone, Debug, PartialEq)]
pub enum EntKind {
  Val { key: Option<Key>, ty: Ty },
  /// explicit group-name entry (only produced when the name is known to be a group)
  Ref { name: String, args: Vec<Ty1> },
  Inline(Grp),
}

#[derive(Clone, Debug, PartialEq)]
pub struct Ent {
  pub occ: Option<Occ>,
  pub kind: EntKind,
}

#[derive(Clone, Debug, PartialEq, Default)]
pub struct Grp(pub Vec<Vec<Ent>>);

#[derive(Clone, Debug, PartialEq)]
pub enum Body {
  Ty(Ty),
  Grp(Ent),
}

#[derive(Clone, Debug, PartialEq)]
pub struct RuleM {
  /// including the `$` / `$$` socket prefix
  pub name: String,
  pub params: Vec<String>,
  /// `=` (false) or `/=` `//=` (true)
  pub alt: bool,
  pub body: Body,
}

#[derive(Clone, Debug, PartialEq, Default)]
pub struct Schema(pub Vec<RuleM>);

// ---------------------------------------------------------------------------------------
// Printer
// ---------------------------------------------------------------------------------------

/// Kind of an `S` position of the RFC 8610 grammar (where blanks and comments may go).
#[derive(Clone, Copy, Debug, PartialEq, Eq, Hash, PartialOrd, Ord)]
pub enum Pos {
  BeforeAssign,
  AfterAssign,
  GenericParam,
  GenericArg,
  ParenOpen,
  ParenClose,
  MapOpen,
  MapClose,
  ArrOpen,
  ArrClose,
  AfterTilde,
  AfterAmp,
  ChoiceOpen,
  ChoiceClose,
  TagOpen,
  TagClose,
  BeforeOp,
  AfterOp,
  BeforeSlash,
  AfterSlash,
  BeforeGrpChoice,
  AfterGrpChoice,
  AfterOccur,
  BeforeColon,
  AfterColon,
  BeforeCut,
  BeforeArrow,
  AfterArrow,
  BeforeComma,
  AfterComma,
  NoComma,
  BeforeTrailingComma,
  InlineOpen,
  InlineClose,
  /// comment on the same line after the end of a rule
  RuleTrail,
  /// comment on its own line between two rules
  RuleLead,
}

pub const ALL_POS: &[Pos] = &[
  Pos::BeforeAssign, Pos::AfterAssign, Pos::GenericParam, Pos::GenericArg, Pos::ParenOpen, Pos::ParenClose,
  Pos::MapOpen, Pos::MapClose, Pos::ArrOpen, Pos::ArrClose, Pos::AfterTilde, Pos::AfterAmp, Pos::ChoiceOpen,
  Pos::ChoiceClose, Pos::TagOpen, Pos::TagClose, Pos::BeforeOp, Pos::AfterOp, Pos::BeforeSlash, Pos::AfterSlash,
  Pos::BeforeGrpChoice, Pos::AfterGrpChoice, Pos::AfterOccur, Pos::BeforeColon, Pos::AfterColon, Pos::BeforeCut,
  Pos::BeforeArrow, Pos::AfterArrow, Pos::BeforeComma, Pos::AfterComma, Pos::NoComma, Pos::BeforeTrailingComma,
  Pos::InlineOpen, Pos::InlineClose, Pos::RuleTrail, Pos::RuleLead,
];

/// Trivia provider: called at every `S` position of the RFC 8610 grammar.
pub trait Trivia {
  /// text for an `S` position; `need` = at least one whitespace character is required
  fn s(&mut self, need: bool, pos: Pos) -> String;
  /// separator between group entries: Some(true) comma, Some(false) none
  fn comma(&mut self) -> bool {
    true
  }
  /// trailing comma after the last entry of a group choice
  fn trailing_comma(&mut self) -> bool {
    false
  }
  /// separator between rules (must contain a newline or be non-empty)
  fn rule_sep(&mut self) -> String {
    "\n".into()
  }
  /// entering / leaving the type inside `#6.<...>`
  fn tag_type(&mut self, _enter: bool) {}
}

/// Canonical spacing: single spaces, commas between entries, one rule per line.
pub struct Plain;
impl Trivia for Plain {
  fn s(&mut self, need: bool, _pos: Pos) -> String {
    if need {
      " ".into()
    } else {
      String::new()
    }
  }
}

/// Pretty: spaces around operators (what a human would write).
pub struct Spaced;
impl Trivia for Spaced {
  fn s(&mut self, _need: bool, _pos: Pos) -> String {
    " ".into()
  }
}

fn idc(c: char) -> bool {
  c.is_ascii_alphanumeric() || matches!(c, '@' | '_' | '$' | '-' | '.')
}

pub struct Printer<'t> {
  pub out: String,
  tr: &'t mut dyn Trivia,
  /// pending S slot (emitted lazily so that we know the next token)
  pending: Option<Pos>,
  /// the previous token was a number literal (a following `..` needs no blank)
  last_num: bool,
  /// comments recorded by a trivia provider (for C16): filled by provider itself
  pub tight: bool,
}

impl<'t> Printer<'t> {
  pub fn new(tr: &'t mut dyn Trivia) -> Printer<'t> {
    Printer { out: String::new(), tr, pending: None, last_num: false, tight: false }
  }
  fn s(&mut self, pos: Pos) {
    self.pending = Some(pos);
  }
  fn tok(&mut self, t: &str) {
    self.tok_k(t, false)
  }
  fn tok_k(&mut self, t: &str, is_num: bool) {
    let last = self.out.chars().last();
    let first = t.chars().next().unwrap_or(' ');
    let mut need = match last {
      None => false,
      Some(l) => {
        (idc(l) && idc(first) && !(self.last_num && first == '.'))
          || (l == '*' && first.is_ascii_digit())
          || (l == '/' && first == '/')
          || (l == '.' && first == '.')
          || (l == '=' && first == '>')
          || (l == '$' && first == '$')
          || (l == '-' && first.is_ascii_digit())
          || (l == '\'' && first == '\'')
          || (l == '"' && first == '"')
          // a name directly followed by '<' would read as generic arguments
          || (idc(l) && first == '<')
          // `1*` / `*` followed by `(`/name is fine; `#6` followed by `.`: handled by caller
      }
    };
    if let Some(pos) = self.pending {
      // a number followed by a range operator: "1..2" is fine, "1.5..2" too; but an
      // integer followed by ".name" control needs a blank ("1.size" is not a number)
      if self.last_num && first == '.' && !t.starts_with("..") {
        need = true;
      }
      let tv = self.tr.s(need, pos);
      debug_assert!(!need || tv.chars().any(|c| c.is_whitespace()) || tv.contains(';'));
      self.out.push_str(&tv);
      self.pending = None;
    } else if need {
      // adjacent tokens without an S position between them never need a blank in this
      // printer (they are emitted as one token); be safe anyway
    }
    self.out.push_str(t);
    self.last_num = is_num;
  }

  pub fn lit(&mut self, l: &Lit) {
    let is_num = matches!(l, Lit::Int { .. } | Lit::Float { .. });
    self.tok_k(l.spelling(), is_num);
  }

  fn args(&mut self, args: &[Ty1]) {
    if args.is_empty() {
      return;
    }
    // genericarg = "<" S type1 S *("," S type1 S ) ">"   (no S before "<")
    self.out.push('<');
    self.last_num = false;
    for (i, a) in args.iter().enumerate() {
      if i > 0 {
        self.tok(",");
      }
      self.s(Pos::GenericArg);
      self.ty1(a);
      self.s(Pos::GenericArg);
    }
    self.tok(">");
  }

  fn tagnum(&mut self, n: &TagNum) {
    match n {
      TagNum::Lit(_, sp) => {
        self.out.push('.');
        self.out.push_str(sp);
        self.last_num = false;
      }
      TagNum::Ty(t) => {
        self.out.push_str(".<");
        self.last_num = false;
        self.tr.tag_type(true);
        self.ty(t);
        self.tr.tag_type(false);
        self.pending = None;
        self.out.push('>');
      }
    }
  }

  pub fn ty2(&mut self, t: &Ty2) {
    match t {
      Ty2::Lit(l) => self.lit(l),
      Ty2::Name { name, args } => {
        self.tok(name);
        self.args(args);
      }
      Ty2::Paren(t) => {
        self.tok("(");
        self.s(Pos::ParenOpen);
        self.ty(t);
        self.s(Pos::ParenClose);
        self.tok(")");
      }
      Ty2::Map(g) => {
        self.tok("{");
        self.s(Pos::MapOpen);
        self.grp(g);
        self.s(Pos::MapClose);
        self.tok("}");
      }
      Ty2::Arr(g) => {
        self.tok("[");
        self.s(Pos::ArrOpen);
        self.grp(g);
        self.s(Pos::ArrClose);
        self.tok("]");
      }
      Ty2::Unwrap { name, args } => {
        self.tok("~");
        self.s(Pos::AfterTilde);
        self.tok(name);
        self.args(args);
      }
      Ty2::ChoiceInline(g) => {
        self.tok("&");
        self.s(Pos::AfterAmp);
        self.tok("(");
        self.s(Pos::ChoiceOpen);
        self.grp(g);
        self.s(Pos::ChoiceClose);
        self.tok(")");
      }
      Ty2::ChoiceName { name, args } => {
        self.tok("&");
        self.s(Pos::AfterAmp);
        self.tok(name);
        self.args(args);
      }
      Ty2::Tag { num, ty } => {
        self.tok("#6");
        if let Some(n) = num {
          self.tagnum(n);
        }
        self.out.push('(');
        self.last_num = false;
        self.s(Pos::TagOpen);
        self.ty(ty);
        self.s(Pos::TagClose);
        self.tok(")");
      }
      Ty2::Major { mt, num } => {
        self.tok(&format!("#{}", mt));
        if let Some(n) = num {
          self.tagnum(n);
        }
      }
      Ty2::Any => self.tok("#"),
    }
  }

  pub fn ty1(&mut self, t: &Ty1) {
    self.ty2(&t.t2);
    if let Some((op, rhs)) = &t.op {
      self.s(Pos::BeforeOp);
      match op {
        Op::Range { inclusive } => self.tok(if *inclusive { ".." } else { "..." }),
        Op::Ctl(n) => self.tok(&format!(".{}", n)),
      }
      self.s(Pos::AfterOp);
      self.ty2(rhs);
    }
  }

  pub fn ty(&mut self, t: &Ty) {
    for (i, t1) in t.0.iter().enumerate() {
      if i > 0 {
        self.s(Pos::BeforeSlash);
        self.tok("/");
        self.s(Pos::AfterSlash);
      }
      self.ty1(t1);
    }
  }

  fn occ(&mut self, o: &Occ) {
    match o {
      Occ::Opt => self.tok("?"),
      Occ::Star => self.tok("*"),
      Occ::Plus => self.tok("+"),
      Occ::Range(l, u) => {
        let t = format!(
          "{}*{}",
          l.map(|v| v.to_string()).unwrap_or_default(),
          u.map(|v| v.to_string()).unwrap_or_default()
        );
        self.tok(&t);
      }
    }
  }

  pub fn ent(&mut self, e: &Ent) {
    if let Some(o) = &e.occ {
      self.occ(o);
      self.s(Pos::AfterOccur);
    }
    match &e.kind {
      EntKind::Val { key, ty } => {
        if let Some(k) = key {
          match k {
            Key::Bare(b) => {
              self.tok(b);
              self.s(Pos::BeforeColon);
              self.tok(":");
              self.s(Pos::AfterColon);
            }
            Key::Val(l) => {
              self.lit(l);
              self.s(Pos::BeforeColon);
              self.tok(":");
              self.s(Pos::AfterColon);
            }
            Key::Arrow { t1, cut } => {
              self.ty1(t1);
              if *cut {
                self.s(Pos::BeforeCut);
                self.tok("^");
              }
              self.s(Pos::BeforeArrow);
              self.tok("=>");
              self.s(Pos::AfterArrow);
            }
          }
        }
        self.ty(ty);
      }
      EntKind::Ref { name, args } => {
        self.tok(name);
        self.args(args);
      }
      EntKind::Inline(g) => {
        self.tok("(");
        self.s(Pos::InlineOpen);
        self.grp(g);
        self.s(Pos::InlineClose);
        self.tok(")");
      }
    }
  }

  pub fn grp(&mut self, g: &Grp) {
    for (i, gc) in g.0.iter().enumerate() {
      if i > 0 {
        self.s(Pos::BeforeGrpChoice);
        self.tok("//");
        self.s(Pos::AfterGrpChoice);
      }
      let n = gc.len();
      for (j, e) in gc.iter().enumerate() {
        self.ent(e);
        // optcom = S ["," S]
        let last = j + 1 == n;
        if !last {
          if self.tr.comma() {
            self.s(Pos::BeforeComma);
            self.tok(",");
            self.s(Pos::AfterComma);
          } else {
            // no comma: the S position must separate the entries
            let tv = self.tr.s(true, Pos::NoComma);
            self.out.push_str(&tv);
            self.pending = None;
            self.last_num = false;
          }
        } else if self.tr.trailing_comma() {
          self.s(Pos::BeforeTrailingComma);
          self.tok(",");
        }
      }
    }
  }

  pub fn rule(&mut self, r: &RuleM) {
    self.tok(&r.name);
    if !r.params.is_empty() {
      self.out.push('<');
      for (i, p) in r.params.iter().enumerate() {
        if i > 0 {
          self.tok(",");
        }
        self.s(Pos::GenericParam);
        self.tok(p);
        self.s(Pos::GenericParam);
      }
      self.tok(">");
    }
    self.s(Pos::BeforeAssign);
    match &r.body {
      Body::Ty(t) => {
        self.tok(if r.alt { "/=" } else { "=" });
        self.s(Pos::AfterAssign);
        self.ty(t);
      }
      Body::Grp(e) => {
        self.tok(if r.alt { "//=" } else { "=" });
        self.s(Pos::AfterAssign);
        self.ent(e);
      }
    }
  }

  pub fn schema(&mut self, s: &Schema) {
    for (i, r) in s.0.iter().enumerate() {
      if i > 0 {
        let sep = self.tr.rule_sep();
        self.out.push_str(&sep);
        self.pending = None;
        self.last_num = false;
      }
      self.rule(r);
    }
    self.pending = None;
  }
}

pub fn render(s: &Schema) -> String {
  let mut tr = Spaced;
  let mut p = Printer::new(&mut tr);
  p.schema(s);
  p.out.push('\n');
  p.out
}

pub fn render_with(s: &Schema, tr: &mut dyn Trivia) -> String {
  let mut p = Printer::new(tr);
  p.schema(s);
  p.out
}

pub fn render_ty(t: &Ty) -> String {
  let mut tr = Spaced;
  let mut p = Printer::new(&mut tr);
  p.ty(t);
  p.out
}

// ---------------------------------------------------------------------------------------
// Expected skeleton (same format as skel::skel_opt with normalize_bare_names = true)
// ---------------------------------------------------------------------------------------

pub fn expected_skel(s: &Schema) -> String {
  let mut o = String::new();
  for r in &s.0 {
    match &r.body {
      Body::Ty(t) => {
        o.push_str("(trule ");
        o.push_str(&r.name);
        x_params(&mut o, &r.params);
        o.push_str(if r.alt { " /= " } else { " = " });
        x_ty(&mut o, t);
        o.push(')');
      }
      Body::Grp(e) => {
        o.push_str("(grule ");
        o.push_str(&r.name);
        x_params(&mut o, &r.params);
        o.push_str(if r.alt { " //= " } else { " = " });
        x_ent(&mut o, e);
        o.push(')');
      }
    }
    o.push('\n');
  }
  o
}

fn x_params(o: &mut String, p: &[String]) {
  if !p.is_empty() {
    o.push('<');
    o.push_str(&p.join(","));
    o.push('>');
  }
}

fn x_args(o: &mut String, a: &[Ty1]) {
  if !a.is_empty() {
    o.push('<');
    for (i, t) in a.iter().enumerate() {
      if i > 0 {
        o.push(',');
      }
      x_ty1(o, t);
    }
    o.push('>');
  }
}

fn hex(o: &mut String, b: &[u8]) {
  for x in b {
    let _ = write!(o, "{:02x}", x);
  }
}

pub fn x_lit(o: &mut String, l: &Lit) {
  match l {
    Lit::Int { v, .. } => {
      if *v < 0 {
        let _ = write!(o, "(int {})", v);
      } else {
        let _ = write!(o, "(uint {})", v);
      }
    }
    Lit::Float { v, .. } => {
      let _ = write!(o, "(float {:016x})", v.to_bits());
    }
    Lit::Text { v, .. } => {
      let _ = write!(o, "(text {:?})", v);
    }
    Lit::Bytes { kind, v, .. } => {
      o.push_str(match kind {
        BytesKind::Utf8 => "(bytes' ",
        BytesKind::Hex => "(bytesh ",
        BytesKind::B64 => "(bytesb64 ",
      });
      hex(o, v);
      o.push(')');
    }
  }
}

fn x_tagnum(o: &mut String, n: &Option<TagNum>) {
  match n {
    None => o.push('-'),
    Some(TagNum::Lit(v, _)) => {
      let _ = write!(o, "{}", v);
    }
    Some(TagNum::Ty(t)) => {
      let mut tr = Plain;
      let mut p = Printer::new(&mut tr);
      p.ty(t);
      let compact: String = p.out.chars().filter(|c| !c.is_whitespace()).collect();
      let _ = write!(o, "<{}>", compact);
    }
  }
}

fn x_ty2(o: &mut String, t: &Ty2) {
  match t {
    Ty2::Lit(l) => x_lit(o, l),
    Ty2::Name { name, args } => {
      o.push_str("(name ");
      o.push_str(name);
      x_args(o, args);
      o.push(')');
    }
    Ty2::Paren(t) => {
      o.push_str("(paren ");
      x_ty(o, t);
      o.push(')');
    }
    Ty2::Map(g) => {
      o.push_str("(map ");
      x_grp(o, g);
      o.push(')');
    }
    Ty2::Arr(g) => {
      o.push_str("(array ");
      x_grp(o, g);
      o.push(')');
    }
    Ty2::Unwrap { name, args } => {
      o.push_str("(unwrap ");
      o.push_str(name);
      x_args(o, args);
      o.push(')');
    }
    Ty2::ChoiceInline(g) => {
      o.push_str("(&inline ");
      x_grp(o, g);
      o.push(')');
    }
    Ty2::ChoiceName { name, args } => {
      o.push_str("(&name ");
      o.push_str(name);
      x_args(o, args);
      o.push(')');
    }
    Ty2::Tag { num, ty } => {
      o.push_str("(tag ");
      x_tagnum(o, num);
      o.push(' ');
      x_ty(o, ty);
      o.push(')');
    }
    // `#6` / `#6.n` without content: the crate stores it as tagged data with an empty type
    Ty2::Major { mt: 6, num } => {
      o.push_str("(tag ");
      x_tagnum(o, num);
      o.push_str(" (T))");
    }
    Ty2::Major { mt, num } => {
      let _ = write!(o, "(major {} ", mt);
      x_tagnum(o, num);
      o.push(')');
    }
    Ty2::Any => o.push_str("(any)"),
  }
}

fn x_ty1(o: &mut String, t: &Ty1) {
  match &t.op {
    None => x_ty2(o, &t.t2),
    Some((op, rhs)) => {
      o.push_str("(op ");
      match op {
        Op::Range { inclusive } => o.push_str(if *inclusive { ".." } else { "..." }),
        Op::Ctl(n) => {
          o.push('.');
          o.push_str(n);
        }
      }
      o.push(' ');
      x_ty2(o, &t.t2);
      o.push(' ');
      x_ty2(o, rhs);
      o.push(')');
    }
  }
}

fn x_ty(o: &mut String, t: &Ty) {
  o.push_str("(T");
  for t1 in &t.0 {
    o.push(' ');
    x_ty1(o, t1);
  }
  o.push(')');
}

fn x_occ(o: &mut String, oc: &Option<Occ>) {
  match oc {
    None => {}
    Some(Occ::Opt) => o.push_str("{?}"),
    Some(Occ::Star) => o.push_str("{*}"),
    Some(Occ::Plus) => o.push_str("{+}"),
    Some(Occ::Range(l, u)) => {
      let _ = write!(
        o,
        "{{{}*{}}}",
        l.map(|v| v.to_string()).unwrap_or_default(),
        u.map(|v| v.to_string()).unwrap_or_default()
      );
    }
  }
}

fn x_grp(o: &mut String, g: &Grp) {
  o.push_str("(G");
  for gc in &g.0 {
    o.push_str(" (GC");
    for e in gc {
      o.push(' ');
      x_ent(o, e);
    }
    o.push(')');
  }
  o.push(')');
}

fn x_ent(o: &mut String, e: &Ent) {
  match &e.kind {
    EntKind::Val { key: None, ty } if ty.0.len() == 1 && ty.0[0].op.is_none() && matches!(ty.0[0].t2, Ty2::Name { .. }) => {
      if let Ty2::Name { name, args } = &ty.0[0].t2 {
        o.push_str("(ref");
        x_occ(o, &e.occ);
        o.push(' ');
        o.push_str(name);
        x_args(o, args);
        o.push(')');
      }
    }
    EntKind::Val { key, ty } => {
      o.push_str("(E");
      x_occ(o, &e.occ);
      o.push(' ');
      match key {
        None => o.push('_'),
        Some(Key::Arrow { t1, cut }) => {
          o.push_str(if *cut { "(key^=> " } else { "(key=> " });
          x_ty1(o, t1);
          o.push(')');
        }
        Some(Key::Bare(b)) => {
          o.push_str("(bare ");
          o.push_str(b);
          o.push(')');
        }
        Some(Key::Val(l)) => {
          o.push_str("(val: ");
          x_lit(o, l);
          o.push(')');
        }
      }
      o.push(' ');
      x_ty(o, ty);
      o.push(')');
    }
    EntKind::Ref { name, args } => {
      o.push_str("(ref");
      x_occ(o, &e.occ);
      o.push(' ');
      o.push_str(name);
      x_args(o, args);
      o.push(')');
    }
    EntKind::Inline(g) => {
      o.push_str("(inline");
      x_occ(o, &e.occ);
      o.push(' ');
      x_grp(o, g);
      o.push(')');
    }
  }
}

// ---------------------------------------------------------------------------------------
// Tape-driven trivia (random blanks, line breaks, comments)
// ---------------------------------------------------------------------------------------

pub struct TapeTrivia<'a, 'b> {
  pub tape: &'a mut Tape<'b>,
  pub comments: bool,
  pub tabs: bool,
  pub crlf: bool,
  pub nonascii_comments: bool,
  /// texts of the comments emitted, in order
  pub emitted: Vec<String>,
  pub counter: usize,
  /// positions at which no comment is placed (open findings); hits are counted
  pub no_comment_at: Vec<Pos>,
  pub suppressed: Vec<Pos>,
  /// positions at which a comment was placed
  pub placed: Vec<Pos>,
  /// when set, comments go only to this kind of position
  pub only_at: Option<Pos>,
  /// upper bound on the number of comments placed
  pub max_comments: Option<usize>,
  /// no comments inside the type of `#6.<...>` (open finding C16-F1: kept as raw source text)
  pub no_comments_in_tag_type: bool,
  tag_depth: usize,
}

impl<'a, 'b> TapeTrivia<'a, 'b> {
  pub fn new(tape: &'a mut Tape<'b>, comments: bool) -> Self {
    TapeTrivia {
      tape,
      comments,
      tabs: false,
      crlf: false,
      nonascii_comments: false,
      emitted: vec![],
      counter: 0,
      no_comment_at: vec![],
      suppressed: vec![],
      placed: vec![],
      only_at: None,
      max_comments: None,
      no_comments_in_tag_type: false,
      tag_depth: 0,
    }
  }
  fn nl(&mut self) -> &'static str {
    if self.crlf && self.tape.chance(1, 3) {
      "\r\n"
    } else {
      "\n"
    }
  }
  fn rule_sep_comment_ok(&mut self, pos: Pos) -> bool {
    if self.no_comment_at.contains(&pos) {
      self.suppressed.push(pos);
      return false;
    }
    if self.only_at.map(|p| p != pos).unwrap_or(false) {
      return false;
    }
    if self.max_comments.map(|m| self.placed.len() >= m).unwrap_or(false) {
      return false;
    }
    self.placed.push(pos);
    true
  }
  fn comment(&mut self) -> String {
    self.counter += 1;
    let body = match self.tape.below(6) {
      0 => format!(" c{}", self.counter),
      1 => format!("c{} x / y", self.counter),
      2 => format!(" c{} \"q\" 'b' ;; more", self.counter),
      3 => format!("c{}", self.counter),
      4 => {
        if self.nonascii_comments {
          format!(" c{} \u{e9}\u{4e16}\u{1f600}", self.counter)
        } else {
          format!(" c{} = [ int ]", self.counter)
        }
      }
      _ => format!(" c{} , ) ] }}", self.counter),
    };
    self.emitted.push(body.clone());
    let nl = self.nl();
    format!(";{}{}", body, nl)
  }
}

impl<'a, 'b> Trivia for TapeTrivia<'a, 'b> {
  fn s(&mut self, need: bool, pos: Pos) -> String {
    let mut out = String::new();
    // weights: nothing / one blank dominate; the rest is the interesting part
    let mut k = self.tape.weighted(&[30, 40, 6, 8, if self.comments { 10 } else { 0 }, if self.tabs { 3 } else { 0 }]);
    if k == 4 && self.no_comments_in_tag_type && self.tag_depth > 0 {
      k = 1;
    }
    if k == 4 {
      if self.no_comment_at.contains(&pos) {
        self.suppressed.push(pos);
        k = 1;
      } else if self.only_at.map(|p| p != pos).unwrap_or(false) || self.max_comments.map(|m| self.placed.len() >= m).unwrap_or(false) {
        k = 1;
      } else {
        self.placed.push(pos);
      }
    }
    match k {
      0 => {}
      1 => out.push(' '),
      2 => out.push_str("  "),
      3 => {
        out.push_str(self.nl());
        out.push_str("  ");
      }
      4 => {
        if self.tape.flag() {
          out.push(' ');
        }
        let c = self.comment();
        out.push_str(&c);
        if self.tape.flag() {
          out.push_str("  ");
        }
      }
      _ => out.push('\t'),
    }
    if need && !out.chars().any(|c| c.is_whitespace()) {
      out.push(' ');
    }
    out
  }
  fn tag_type(&mut self, enter: bool) {
    if enter {
      self.tag_depth += 1;
    } else {
      self.tag_depth = self.tag_depth.saturating_sub(1);
    }
  }
  fn comma(&mut self) -> bool {
    !self.tape.chance(1, 5)
  }
  fn trailing_comma(&mut self) -> bool {
    self.tape.chance(1, 8)
  }
  fn rule_sep(&mut self) -> String {
    let mut out = String::new();
    match self.tape.below(5) {
      0 | 1 => out.push_str(self.nl()),
      2 => {
        out.push_str(self.nl());
        out.push_str(self.nl());
      }
      3 => {
        if self.comments && self.rule_sep_comment_ok(Pos::RuleTrail) {
          out.push(' ');
          let c = self.comment();
          out.push_str(&c);
        } else {
          out.push_str(self.nl());
        }
      }
      _ => {
        out.push_str(self.nl());
        if self.comments && self.rule_sep_comment_ok(Pos::RuleLead) {
          let c = self.comment();
          out.push_str(&c);
        }
      }
    }
    out
  }
}

// ---------------------------------------------------------------------------------------
// Walkers (used by exclusion predicates and strata)
// ---------------------------------------------------------------------------------------

pub fn walk_ty<'a>(t: &'a Ty, fe: &mut dyn FnMut(&'a Ent, bool), ft: &mut dyn FnMut(&'a Ty1)) {
  for t1 in &t.0 {
    ft(t1);
    walk_ty2(&t1.t2, fe, ft);
    if let Some((_, rhs)) = &t1.op {
      walk_ty2(rhs, fe, ft);
    }
  }
}

fn walk_args<'a>(args: &'a [Ty1], fe: &mut dyn FnMut(&'a Ent, bool), ft: &mut dyn FnMut(&'a Ty1)) {
  for a in args {
    ft(a);
    walk_ty2(&a.t2, fe, ft);
    if let Some((_, rhs)) = &a.op {
      walk_ty2(rhs, fe, ft);
    }
  }
}

pub fn walk_ty2<'a>(t: &'a Ty2, fe: &mut dyn FnMut(&'a Ent, bool), ft: &mut dyn FnMut(&'a Ty1)) {
  match t {
    Ty2::Lit(_) | Ty2::Any | Ty2::Major { .. } => {}
    Ty2::Name { args, .. } | Ty2::Unwrap { args, .. } | Ty2::ChoiceName { args, .. } => walk_args(args, fe, ft),
    Ty2::Paren(t) => walk_ty(t, fe, ft),
    Ty2::Map(g) => walk_grp(g, true, fe, ft),
    Ty2::Arr(g) => walk_grp(g, false, fe, ft),
    Ty2::ChoiceInline(g) => walk_grp(g, false, fe, ft),
    Ty2::Tag { ty, .. } => walk_ty(ty, fe, ft),
  }
}

/// `in_map`: the group is (part of) a map group
pub fn walk_grp<'a>(g: &'a Grp, in_map: bool, fe: &mut dyn FnMut(&'a Ent, bool), ft: &mut dyn FnMut(&'a Ty1)) {
  for gc in &g.0 {
    for e in gc {
      walk_ent(e, in_map, fe, ft);
    }
  }
}

pub fn walk_ent<'a>(e: &'a Ent, in_map: bool, fe: &mut dyn FnMut(&'a Ent, bool), ft: &mut dyn FnMut(&'a Ty1)) {
  fe(e, in_map);
  match &e.kind {
    EntKind::Val { key, ty } => {
      if let Some(Key::Arrow { t1, .. }) = key {
        ft(t1);
        walk_ty2(&t1.t2, fe, ft);
        if let Some((_, rhs)) = &t1.op {
          walk_ty2(rhs, fe, ft);
        }
      }
      walk_ty(ty, fe, ft);
    }
    EntKind::Ref { args, .. } => walk_args(args, fe, ft),
    EntKind::Inline(g) => walk_grp(g, in_map, fe, ft),
  }
}

pub fn walk_schema<'a>(s: &'a Schema, fe: &mut dyn FnMut(&'a Ent, bool), ft: &mut dyn FnMut(&'a Ty1)) {
  for r in &s.0 {
    match &r.body {
      Body::Ty(t) => walk_ty(t, fe, ft),
      Body::Grp(e) => walk_ent(e, true, fe, ft),
    }
  }
}

pub fn any_ent(s: &Schema, mut p: impl FnMut(&Ent, bool) -> bool) -> bool {
  let mut found = false;
  walk_schema(s, &mut |e, m| found |= p(e, m), &mut |_| {});
  found
}

pub fn any_ty1(s: &Schema, mut p: impl FnMut(&Ty1) -> bool) -> bool {
  let mut found = false;
  walk_schema(s, &mut |_, _| {}, &mut |t| found |= p(t));
  found
}

/// a member key that is a type domain (not a literal)
pub fn is_table_key(k: &Key) -> bool {
  match k {
    Key::Arrow { t1, .. } => !(t1.op.is_none() && matches!(t1.t2, Ty2::Lit(_))),
    _ => false,
  }
}
