//! JSON text writer for `CVal`s of the JSON data model (own code; serde_json is only used
//! by the crate under test).
use crate::cbor::CVal;

pub fn is_json_model(v: &CVal) -> bool {
  match v {
    CVal::Int(i) => *i >= -(1i128 << 63) && *i < (1i128 << 64),
    CVal::Float(b) => f64::from_bits(*b).is_finite(),
    CVal::Text(_) => true,
    CVal::Simple(20) | CVal::Simple(21) | CVal::Simple(22) => true,
    CVal::Array(a) => a.iter().all(is_json_model),
    CVal::Map(m) => {
      let mut keys: Vec<&str> = vec![];
      for (k, v) in m {
        match k {
          CVal::Text(s) => {
            if keys.contains(&s.as_str()) {
              return false;
            }
            keys.push(s)
          }
          _ => return false,
        }
        if !is_json_model(v) {
          return false;
        }
      }
      true
    }
    _ => false,
  }
}

pub fn write_str(out: &mut String, s: &str) {
  out.push('"');
  for c in s.chars() {
    match c {
      '"' => out.push_str("\\\""),
      '\\' => out.push_str("\\\\"),
      '\n' => out.push_str("\\n"),
      '\r' => out.push_str("\\r"),
      '\t' => out.push_str("\\t"),
      c if (c as u32) < 0x20 => out.push_str(&format!("\\u{:04x}", c as u32)),
      c => out.push(c),
    }
  }
  out.push('"');
}

pub fn write_float(out: &mut String, f: f64) {
  // Rust's shortest round-trip formatting; always carries '.', or an exponent
  let s = format!("{:?}", f);
  out.push_str(&s);
}

pub fn write(out: &mut String, v: &CVal, spaced: bool) {
  match v {
    CVal::Int(i) => out.push_str(&i.to_string()),
    CVal::Float(b) => write_float(out, f64::from_bits(*b)),
    CVal::Text(s) => write_str(out, s),
    CVal::Simple(20) => out.push_str("false"),
    CVal::Simple(21) => out.push_str("true"),
    CVal::Simple(22) => out.push_str("null"),
    CVal::Array(a) => {
      out.push('[');
      for (i, x) in a.iter().enumerate() {
        if i > 0 {
          out.push_str(if spaced { ", " } else { "," });
        }
        write(out, x, spaced);
      }
      out.push(']');
    }
    CVal::Map(m) => {
      out.push('{');
      for (i, (k, x)) in m.iter().enumerate() {
        if i > 0 {
          out.push_str(if spaced { ", " } else { "," });
        }
        match k {
          CVal::Text(s) => write_str(out, s),
          other => write_str(out, &other.diag()),
        }
        out.push_str(if spaced { ": " } else { ":" });
        write(out, x, spaced);
      }
      out.push('}');
    }
    other => out.push_str(&format!("\"<non-json {}>\"", other.diag())),
  }
}

pub fn to_json(v: &CVal) -> String {
  let mut s = String::new();
  write(&mut s, v, false);
  s
}
