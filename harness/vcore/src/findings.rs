//! KNOWN_FINDINGS.json: committed list of genuine defects of anweiss/cddl that were
//! recorded (status "open") or repaired (status "fixed").  Never written at run time.
use serde_json::Value as J;
use std::collections::BTreeSet;
use std::path::Path;

#[derive(Clone, Debug)]
pub struct Finding {
  pub id: String,
  pub property: String,
  pub status: String,
  pub witness: Vec<String>,
  pub what: String,
  pub exclusion: Vec<String>,
}

#[derive(Default, Debug)]
pub struct Findings {
  pub all: Vec<Finding>,
  active: BTreeSet<String>,
}

fn strs(v: &J) -> Vec<String> {
  match v {
    J::String(s) => vec![s.clone()],
    J::Array(a) => a.iter().filter_map(|x| x.as_str().map(|s| s.to_string())).collect(),
    _ => vec![],
  }
}

impl Findings {
  pub fn load(verif_dir: &Path, prop: &str) -> Findings {
    let p = verif_dir.join("KNOWN_FINDINGS.json");
    let mut out = Findings::default();
    let txt = match std::fs::read_to_string(&p) {
      Ok(t) => t,
      Err(_) => return out,
    };
    let j: J = serde_json::from_str(&txt).expect("KNOWN_FINDINGS.json must be valid JSON");
    for f in j["findings"].as_array().cloned().unwrap_or_default() {
      let fd = Finding {
        id: f["id"].as_str().unwrap_or("").to_string(),
        property: f["property"].as_str().unwrap_or("").to_string(),
        status: f["status"].as_str().unwrap_or("open").to_string(),
        witness: strs(&f["witness"]),
        what: f["what"].as_str().unwrap_or("").to_string(),
        exclusion: strs(&f["exclusion"]),
      };
      // An exclusion is active for *every* property's generators while the finding is open:
      // the same root cause shows up through several properties (e.g. a printer defect hits
      // C06, C16 and C19).
      if fd.status == "open" {
        for e in &fd.exclusion {
          out.active.insert(e.clone());
        }
      }
      let _ = prop;
      out.all.push(fd);
    }
    if let Ok(extra) = std::env::var("VERIF_NO_EXCLUSIONS") {
      // debugging aid: VERIF_NO_EXCLUSIONS=all or a comma list switches exclusions off
      if extra == "all" {
        out.active.clear();
      } else {
        for e in extra.split(',') {
          out.active.remove(e);
        }
      }
    }
    out
  }

  pub fn active_exclusions(&self) -> Vec<String> {
    self.active.iter().cloned().collect()
  }

  pub fn exclusion_active(&self, name: &str) -> bool {
    self.active.contains(name)
  }

  pub fn open_for_witness(&self, rel: &str) -> Vec<Finding> {
    self
      .all
      .iter()
      .filter(|f| f.status == "open" && f.witness.iter().any(|w| w == rel))
      .cloned()
      .collect()
  }
}
