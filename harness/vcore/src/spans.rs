//! `spans`: the tree of span-bearing AST nodes of a `cddl::ast::CDDL` and the geometric laws of C15.
use cddl::ast::*;
use cddl::token::SocketPlug;

#[derive(Debug, Clone)]
pub struct SNode {
  pub kind: &'static str,
  pub span: (usize, usize, usize),
  pub kids: Vec<SNode>,
  /// for identifiers: the exact text the span must cover
  pub ident: Option<String>,
}

fn n(kind: &'static str, span: Span, kids: Vec<SNode>) -> SNode {
  SNode { kind, span, kids, ident: None }
}

fn ident(i: &Identifier) -> SNode {
  let mut s = String::new();
  match i.socket {
    Some(SocketPlug::TYPE) => s.push('$'),
    Some(SocketPlug::GROUP) => s.push_str("$$"),
    None => {}
  }
  s.push_str(i.ident);
  SNode { kind: "Identifier", span: i.span, kids: vec![], ident: Some(s) }
}

fn gparams(g: &Option<GenericParams>, out: &mut Vec<SNode>) {
  if let Some(g) = g {
    out.push(n("GenericParams", g.span, g.params.iter().map(|p| ident(&p.param)).collect()));
  }
}

fn gargs(g: &Option<GenericArgs>, out: &mut Vec<SNode>) {
  if let Some(g) = g {
    out.push(n("GenericArgs", g.span, g.args.iter().map(|a| type1(&a.arg)).collect()));
  }
}

pub fn rule(r: &Rule) -> SNode {
  match r {
    Rule::Type { rule, span, .. } => {
      let mut kids = vec![ident(&rule.name)];
      gparams(&rule.generic_params, &mut kids);
      kids.push(ty(&rule.value));
      n("Rule::Type", *span, kids)
    }
    Rule::Group { rule, span, .. } => {
      let mut kids = vec![ident(&rule.name)];
      gparams(&rule.generic_params, &mut kids);
      kids.push(entry(&rule.entry));
      n("Rule::Group", *span, kids)
    }
  }
}

fn ty(t: &Type) -> SNode {
  if t.type_choices.is_empty() && t.span == Span::default() {
    // `#6` / `#6.n` without a parenthesised type: the crate stores an empty placeholder type that
    // corresponds to no source text
    return n("Synth", t.span, vec![]);
  }
  n("Type", t.span, t.type_choices.iter().map(|tc| type1(&tc.type1)).collect())
}

fn type1(t: &Type1) -> SNode {
  let mut kids = vec![type2(&t.type2)];
  if let Some(op) = &t.operator {
    match &op.operator {
      RangeCtlOp::RangeOp { span, .. } => kids.push(n("RangeOp", *span, vec![])),
      RangeCtlOp::CtlOp { span, .. } => kids.push(n("CtlOp", *span, vec![])),
    }
    kids.push(type2(&op.type2));
  }
  n("Type1", t.span, kids)
}

fn type2(t: &Type2) -> SNode {
  match t {
    Type2::IntValue { span, .. } => n("IntValue", *span, vec![]),
    Type2::UintValue { span, .. } => n("UintValue", *span, vec![]),
    Type2::FloatValue { span, .. } => n("FloatValue", *span, vec![]),
    Type2::TextValue { span, .. } => n("TextValue", *span, vec![]),
    Type2::UTF8ByteString { span, .. } => n("UTF8ByteString", *span, vec![]),
    Type2::B16ByteString { span, .. } => n("B16ByteString", *span, vec![]),
    Type2::B64ByteString { span, .. } => n("B64ByteString", *span, vec![]),
    Type2::Typename { ident: i, generic_args, span } => {
      let mut kids = vec![ident(i)];
      gargs(generic_args, &mut kids);
      n("Typename", *span, kids)
    }
    Type2::ParenthesizedType { pt, span, .. } => n("ParenthesizedType", *span, vec![ty(pt)]),
    Type2::Map { group: g, span, .. } => n("Map", *span, vec![group(g)]),
    Type2::Array { group: g, span, .. } => n("Array", *span, vec![group(g)]),
    Type2::Unwrap { ident: i, generic_args, span, .. } => {
      let mut kids = vec![ident(i)];
      gargs(generic_args, &mut kids);
      n("Unwrap", *span, kids)
    }
    Type2::ChoiceFromInlineGroup { group: g, span, .. } => n("ChoiceFromInlineGroup", *span, vec![group(g)]),
    Type2::ChoiceFromGroup { ident: i, generic_args, span, .. } => {
      let mut kids = vec![ident(i)];
      gargs(generic_args, &mut kids);
      n("ChoiceFromGroup", *span, kids)
    }
    Type2::TaggedData { t, span, .. } => n("TaggedData", *span, vec![ty(t)].into_iter().filter(|k| k.kind != "Synth").collect()),
    Type2::DataMajorType { span, .. } => n("DataMajorType", *span, vec![]),
    Type2::Any { span } => n("Any", *span, vec![]),
  }
}

fn group(g: &Group) -> SNode {
  n(
    "Group",
    g.span,
    g.group_choices.iter().map(|gc| n("GroupChoice", gc.span, gc.group_entries.iter().map(|(e, _)| entry(e)).collect())).collect(),
  )
}

fn occur(o: &Option<Occurrence>, out: &mut Vec<SNode>) {
  if let Some(o) = o {
    let span = match &o.occur {
      Occur::Exact { span, .. } => *span,
      Occur::ZeroOrMore { span } => *span,
      Occur::OneOrMore { span } => *span,
      Occur::Optional { span } => *span,
    };
    out.push(n("Occur", span, vec![]));
  }
}

fn entry(e: &GroupEntry) -> SNode {
  match e {
    GroupEntry::ValueMemberKey { ge, span, .. } => {
      let mut kids = vec![];
      occur(&ge.occur, &mut kids);
      match &ge.member_key {
        Some(MemberKey::Type1 { t1, span, .. }) => kids.push(n("MemberKey::Type1", *span, vec![type1(t1)])),
        Some(MemberKey::Bareword { ident: i, span, .. }) => kids.push(n("MemberKey::Bareword", *span, vec![ident(i)])),
        Some(MemberKey::Value { span, .. }) => kids.push(n("MemberKey::Value", *span, vec![])),
        Some(MemberKey::NonMemberKey { .. }) | None => {}
      }
      kids.push(ty(&ge.entry_type));
      n("GroupEntry::ValueMemberKey", *span, kids)
    }
    GroupEntry::TypeGroupname { ge, span, .. } => {
      let mut kids = vec![];
      occur(&ge.occur, &mut kids);
      kids.push(ident(&ge.name));
      gargs(&ge.generic_args, &mut kids);
      n("GroupEntry::TypeGroupname", *span, kids)
    }
    GroupEntry::InlineGroup { occur: o, group: g, span, .. } => {
      let mut kids = vec![];
      occur(o, &mut kids);
      kids.push(group(g));
      n("GroupEntry::InlineGroup", *span, kids)
    }
  }
}

pub fn tree(c: &CDDL) -> Vec<SNode> {
  c.rules.iter().map(rule).collect()
}

pub fn count(nodes: &[SNode]) -> usize {
  nodes.iter().map(|x| 1 + count(&x.kids)).sum()
}

/// A broken law: (signature for grouping, human-readable message)
pub type Broken = (String, String);

fn show(src: &str, s: (usize, usize, usize)) -> String {
  let t = src.get(s.0.min(src.len())..s.1.min(src.len())).map(|x| format!("{:?}", x)).unwrap_or_else(|| "<not sliceable>".into());
  format!("({},{},line {}) = {}", s.0, s.1, s.2, t)
}

fn line_of(src: &str, at: usize) -> usize {
  src.as_bytes()[..at].iter().filter(|b| **b == b'\n').count() + 1
}

fn check_node(src: &str, x: &SNode, parent: Option<&SNode>, out: &mut Vec<Broken>) {
  let (s, e, l) = x.span;
  let ok_bounds = s <= e && e <= src.len();
  if !ok_bounds {
    out.push((format!("bounds:{}", x.kind), format!("{} span ({},{},{}) violates 0 <= start <= end <= len={}", x.kind, s, e, l, src.len())));
    return;
  }
  if !src.is_char_boundary(s) || !src.is_char_boundary(e) {
    out.push((format!("char_boundary:{}", x.kind), format!("{} span ({},{}) is not on UTF-8 character boundaries", x.kind, s, e)));
    return;
  }
  if l != line_of(src, s) {
    out.push((format!("line:{}", x.kind), format!("{} span {} carries line {} but its start is on line {}", x.kind, show(src, x.span), l, line_of(src, s))));
  }
  if let Some(p) = parent {
    let (ps, pe, _) = p.span;
    if !(ps <= s && e <= pe) {
      out.push((
        format!("inside_parent:{}<{}", x.kind, p.kind),
        format!("{} span {} is not inside its parent {} span {}", x.kind, show(src, x.span), p.kind, show(src, p.span)),
      ));
    }
  }
  if let Some(want) = &x.ident {
    if &src[s..e] != want.as_str() {
      out.push((format!("ident_text:{}", parent.map(|p| p.kind).unwrap_or("-")), format!("identifier {:?} has span {}", want, show(src, x.span))));
    }
  }
  if x.kind.starts_with("Rule::") {
    if let Some(name) = x.kids.first() {
      if name.span.0 != s {
        out.push((format!("rule_starts_at_name:{}", x.kind), format!("{} span {} does not start at its name {}", x.kind, show(src, x.span), show(src, name.span))));
      }
    }
  }
  siblings(src, &x.kids, x.kind, out);
  for k in &x.kids {
    check_node(src, k, Some(x), out);
  }
}

fn siblings(src: &str, kids: &[SNode], pkind: &str, out: &mut Vec<Broken>) {
  for w in kids.windows(2) {
    let (a, b) = (&w[0], &w[1]);
    if a.span.1 > b.span.0 || a.span.0 > b.span.0 {
      out.push((
        format!("sibling_order:{}:{},{}", pkind, a.kind, b.kind),
        format!("siblings under {} overlap or are out of order: {} {} then {} {}", pkind, a.kind, show(src, a.span), b.kind, show(src, b.span)),
      ));
    }
  }
}

/// every broken law of C15's first sentence on an accepted document
pub fn check_ast(src: &str, c: &CDDL) -> Vec<Broken> {
  let mut out = vec![];
  let t = tree(c);
  siblings(src, &t, "CDDL", &mut out);
  for r in &t {
    check_node(src, r, None, &mut out);
  }
  out
}

/// C15's second sentence on a reported error position
pub fn check_position(src: &str, line: usize, column: usize, range: (usize, usize), index: usize) -> Vec<Broken> {
  let mut out = vec![];
  if index > src.len() || range.0 > src.len() || range.1 > src.len() {
    out.push(("err_outside_input".to_string(), format!("position index {} range {:?} lies outside the input (len {})", index, range, src.len())));
    return out;
  }
  if range.0 > range.1 {
    out.push(("err_range_inverted".to_string(), format!("range {:?} is inverted", range)));
  }
  for (what, at) in [("index", index), ("range.0", range.0), ("range.1", range.1)] {
    if !src.is_char_boundary(at) {
      out.push((format!("err_char_boundary:{}", what), format!("{} = {} is inside a UTF-8 sequence", what, at)));
      return out;
    }
  }
  let want_line = line_of(src, index);
  let line_start = src[..index].rfind('\n').map(|i| i + 1).unwrap_or(0);
  let want_col = src[line_start..index].chars().count() + 1;
  if line != want_line {
    out.push(("err_line".to_string(), format!("line {} reported for index {} which is on line {}", line, index, want_line)));
  } else if column != want_col {
    out.push(("err_column".to_string(), format!("column {} reported for index {} which is column {} of line {}", column, index, want_col, want_line)));
  }
  out
}
