//! `comments`: every comment text stored in a `cddl::ast::CDDL` (with the name of the slot holding it), and an
//! independent scanner for the comments of a CDDL source text.
use cddl::ast::*;

pub struct Found {
  pub slot: &'static str,
  pub text: String,
}

fn put(out: &mut Vec<Found>, slot: &'static str, c: &Option<Comments>) {
  if let Some(c) = c {
    for t in &c.0 {
      if *t != "\n" {
        out.push(Found { slot, text: t.to_string() });
      }
    }
  }
}

pub fn collect(c: &CDDL) -> Vec<Found> {
  let mut out = vec![];
  put(&mut out, "CDDL.comments", &c.comments);
  for r in &c.rules {
    match r {
      Rule::Type { rule, comments_before_rule, comments_after_rule, .. } => {
        put(&mut out, "Rule.comments_before_rule", comments_before_rule);
        ident_params(&mut out, &rule.generic_params);
        put(&mut out, "TypeRule.comments_before_assignt", &rule.comments_before_assignt);
        put(&mut out, "TypeRule.comments_after_assignt", &rule.comments_after_assignt);
        ty(&mut out, &rule.value);
        put(&mut out, "Rule.comments_after_rule", comments_after_rule);
      }
      Rule::Group { rule, comments_before_rule, comments_after_rule, .. } => {
        put(&mut out, "Rule.comments_before_rule", comments_before_rule);
        ident_params(&mut out, &rule.generic_params);
        put(&mut out, "GroupRule.comments_before_assigng", &rule.comments_before_assigng);
        put(&mut out, "GroupRule.comments_after_assigng", &rule.comments_after_assigng);
        entry(&mut out, &rule.entry);
        put(&mut out, "Rule.comments_after_rule", comments_after_rule);
      }
    }
  }
  out
}

fn ident_params(out: &mut Vec<Found>, g: &Option<GenericParams>) {
  if let Some(g) = g {
    for p in &g.params {
      put(out, "GenericParam.comments_before_ident", &p.comments_before_ident);
      put(out, "GenericParam.comments_after_ident", &p.comments_after_ident);
    }
  }
}

fn gargs(out: &mut Vec<Found>, g: &Option<GenericArgs>) {
  if let Some(g) = g {
    for a in &g.args {
      put(out, "GenericArg.comments_before_type", &a.comments_before_type);
      type1(out, &a.arg);
      put(out, "GenericArg.comments_after_type", &a.comments_after_type);
    }
  }
}

fn ty(out: &mut Vec<Found>, t: &Type) {
  for tc in &t.type_choices {
    put(out, "TypeChoice.comments_before_type", &tc.comments_before_type);
    type1(out, &tc.type1);
    put(out, "TypeChoice.comments_after_type", &tc.comments_after_type);
  }
}

fn type1(out: &mut Vec<Found>, t: &Type1) {
  type2(out, &t.type2);
  if let Some(op) = &t.operator {
    put(out, "Operator.comments_before_operator", &op.comments_before_operator);
    put(out, "Operator.comments_after_operator", &op.comments_after_operator);
    type2(out, &op.type2);
  }
  put(out, "Type1.comments_after_type", &t.comments_after_type);
}

fn type2(out: &mut Vec<Found>, t: &Type2) {
  match t {
    Type2::Typename { generic_args, .. } => gargs(out, generic_args),
    Type2::ParenthesizedType { pt, comments_before_type, comments_after_type, .. } => {
      put(out, "Paren.comments_before_type", comments_before_type);
      ty(out, pt);
      put(out, "Paren.comments_after_type", comments_after_type);
    }
    Type2::Map { group: g, comments_before_group, comments_after_group, .. } => {
      put(out, "Map.comments_before_group", comments_before_group);
      group(out, g);
      put(out, "Map.comments_after_group", comments_after_group);
    }
    Type2::Array { group: g, comments_before_group, comments_after_group, .. } => {
      put(out, "Array.comments_before_group", comments_before_group);
      group(out, g);
      put(out, "Array.comments_after_group", comments_after_group);
    }
    Type2::Unwrap { generic_args, comments, .. } => {
      put(out, "Unwrap.comments", comments);
      gargs(out, generic_args);
    }
    Type2::ChoiceFromInlineGroup { group: g, comments, comments_before_group, comments_after_group, .. } => {
      put(out, "ChoiceFromInlineGroup.comments", comments);
      put(out, "ChoiceFromInlineGroup.comments_before_group", comments_before_group);
      group(out, g);
      put(out, "ChoiceFromInlineGroup.comments_after_group", comments_after_group);
    }
    Type2::ChoiceFromGroup { generic_args, comments, .. } => {
      put(out, "ChoiceFromGroup.comments", comments);
      gargs(out, generic_args);
    }
    Type2::TaggedData { t, comments_before_type, comments_after_type, .. } => {
      put(out, "TaggedData.comments_before_type", comments_before_type);
      ty(out, t);
      put(out, "TaggedData.comments_after_type", comments_after_type);
    }
    _ => {}
  }
}

fn group(out: &mut Vec<Found>, g: &Group) {
  for gc in &g.group_choices {
    put(out, "GroupChoice.comments_before_grpchoice", &gc.comments_before_grpchoice);
    for (e, oc) in &gc.group_entries {
      entry(out, e);
      put(out, "OptionalComma.trailing_comments", &oc.trailing_comments);
    }
  }
}

fn occ(out: &mut Vec<Found>, o: &Option<Occurrence>) {
  if let Some(o) = o {
    put(out, "Occurrence.comments", &o.comments);
  }
}

fn entry(out: &mut Vec<Found>, e: &GroupEntry) {
  match e {
    GroupEntry::ValueMemberKey { ge, leading_comments, trailing_comments, .. } => {
      put(out, "ValueMemberKey.leading_comments", leading_comments);
      occ(out, &ge.occur);
      match &ge.member_key {
        Some(MemberKey::Type1 { t1, comments_before_cut, comments_after_cut, comments_after_arrowmap, .. }) => {
          type1(out, t1);
          put(out, "MemberKey::Type1.comments_before_cut", comments_before_cut);
          put(out, "MemberKey::Type1.comments_after_cut", comments_after_cut);
          put(out, "MemberKey::Type1.comments_after_arrowmap", comments_after_arrowmap);
        }
        Some(MemberKey::Bareword { comments, comments_after_colon, .. }) => {
          put(out, "MemberKey::Bareword.comments", comments);
          put(out, "MemberKey::Bareword.comments_after_colon", comments_after_colon);
        }
        Some(MemberKey::Value { comments, comments_after_colon, .. }) => {
          put(out, "MemberKey::Value.comments", comments);
          put(out, "MemberKey::Value.comments_after_colon", comments_after_colon);
        }
        Some(MemberKey::NonMemberKey { non_member_key, comments_before_type_or_group, comments_after_type_or_group }) => {
          put(out, "NonMemberKey.comments_before_type_or_group", comments_before_type_or_group);
          match non_member_key {
            NonMemberKey::Group(g) => group(out, g),
            NonMemberKey::Type(t) => ty(out, t),
          }
          put(out, "NonMemberKey.comments_after_type_or_group", comments_after_type_or_group);
        }
        None => {}
      }
      ty(out, &ge.entry_type);
      put(out, "ValueMemberKey.trailing_comments", trailing_comments);
    }
    GroupEntry::TypeGroupname { ge, leading_comments, trailing_comments, .. } => {
      put(out, "TypeGroupname.leading_comments", leading_comments);
      occ(out, &ge.occur);
      gargs(out, &ge.generic_args);
      put(out, "TypeGroupname.trailing_comments", trailing_comments);
    }
    GroupEntry::InlineGroup { occur, group: g, comments_before_group, comments_after_group, .. } => {
      occ(out, occur);
      put(out, "InlineGroup.comments_before_group", comments_before_group);
      group(out, g);
      put(out, "InlineGroup.comments_after_group", comments_after_group);
    }
  }
}

/// The comments of a CDDL text by an independent scan: `;` outside text ("...") and byte string ('...') literals up
/// to the end of the line (LF or CRLF excluded).
pub fn scan(text: &str) -> Vec<String> {
  let b: Vec<char> = text.chars().collect();
  let mut out = vec![];
  let mut i = 0;
  while i < b.len() {
    match b[i] {
      '"' | '\'' => {
        let q = b[i];
        i += 1;
        while i < b.len() && b[i] != q {
          if b[i] == '\\' {
            i += 1;
          }
          i += 1;
        }
        i += 1;
      }
      ';' => {
        let mut j = i + 1;
        let mut s = String::new();
        while j < b.len() && b[j] != '\n' {
          s.push(b[j]);
          j += 1;
        }
        if s.ends_with('\r') {
          s.pop();
        }
        out.push(s);
        i = j;
      }
      _ => i += 1,
    }
  }
  out
}
