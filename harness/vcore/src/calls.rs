//! Panic-safe wrappers around the public API of the crate under test.
use std::cell::RefCell;
use std::panic::{catch_unwind, AssertUnwindSafe};

thread_local! {
  static LAST_PANIC: RefCell<String> = RefCell::new(String::new());
}

/// Silent hook that remembers `file:line: message` of the last panic on this thread.
pub fn install_panic_hook() {
  std::panic::set_hook(Box::new(|info| {
    let loc = info
      .location()
      .map(|l| format!("{}:{}", l.file(), l.line()))
      .unwrap_or_else(|| "?".into());
    let msg = if let Some(s) = info.payload().downcast_ref::<&str>() {
      s.to_string()
    } else if let Some(s) = info.payload().downcast_ref::<String>() {
      s.clone()
    } else {
      String::new()
    };
    let mut m: String = msg.chars().take(160).collect();
    m = m.replace('\n', " ");
    LAST_PANIC.with(|p| *p.borrow_mut() = format!("{}: {}", loc, m));
  }));
}

pub fn last_panic() -> String {
  LAST_PANIC.with(|p| p.borrow().clone())
}

/// Location part (`path:line`) of a recorded panic, with the path made relative to the
/// crate under test so that known-finding keys do not depend on line numbers elsewhere.
pub fn panic_site(p: &str) -> String {
  let loc = p.split(": ").next().unwrap_or(p);
  loc.to_string()
}

/// Verdict of a validation call.
#[derive(Clone, Debug, PartialEq)]
pub enum V {
  Ok,
  /// Err(Validation(list)): (location, reason)
  Invalid(Vec<(String, String)>),
  SchemaErr(String),
  DocErr(String),
  OtherErr(String),
  Panic(String),
  /// the worker process died (stack overflow, allocation failure): signal / exit status
  Abort(String),
  /// the worker did not answer within the per-call limit and was killed
  Hang,
}

impl V {
  pub fn accepts(&self) -> bool {
    matches!(self, V::Ok)
  }
  pub fn class(&self) -> &'static str {
    match self {
      V::Ok => "ok",
      V::Invalid(_) => "invalid",
      V::SchemaErr(_) => "schema_err",
      V::DocErr(_) => "doc_err",
      V::OtherErr(_) => "other_err",
      V::Panic(_) => "panic",
      V::Abort(_) => "abort",
      V::Hang => "hang",
    }
  }
  pub fn brief(&self) -> String {
    match self {
      V::Ok => "ok".into(),
      V::Invalid(l) => format!(
        "invalid[{}]: {}",
        l.len(),
        l.first().map(|x| format!("{} @ {:?}", x.1, x.0)).unwrap_or_default()
      ),
      V::SchemaErr(s) => format!("schema_err: {}", s),
      V::DocErr(s) => format!("doc_err: {}", s),
      V::OtherErr(s) => format!("other_err: {}", s),
      V::Panic(s) => format!("panic: {}", s),
      V::Abort(s) => format!("abort: {}", s),
      V::Hang => "hang".into(),
    }
  }
}

fn guard<T>(f: impl FnOnce() -> T) -> Result<T, String> {
  catch_unwind(AssertUnwindSafe(f)).map_err(|_| last_panic())
}

// ---------------------------------------------------------------------------------------
// Watchdog: every call into the crate under test registers what it is doing; a background
// thread ends the run (exit 2 = inconclusive) when one call does not return in time and
// saves the inputs of the stuck call, so that a hang is never silent and never a violation
// by timing alone.
// ---------------------------------------------------------------------------------------

struct Slot {
  since: std::time::Instant,
  what: String,
}

static SLOTS: std::sync::Mutex<Vec<Option<Slot>>> = std::sync::Mutex::new(Vec::new());

thread_local! {
  static MY_SLOT: std::cell::Cell<usize> = std::cell::Cell::new(usize::MAX);
}

pub struct InCall(usize);

impl Drop for InCall {
  fn drop(&mut self) {
    if let Ok(mut s) = SLOTS.lock() {
      if let Some(x) = s.get_mut(self.0) {
        *x = None;
      }
    }
  }
}

/// Register the start of a call into the crate under test.
pub fn in_call(what: impl FnOnce() -> String) -> InCall {
  let idx = MY_SLOT.with(|c| {
    if c.get() == usize::MAX {
      let mut s = SLOTS.lock().unwrap();
      s.push(None);
      c.set(s.len() - 1);
    }
    c.get()
  });
  let mut s = SLOTS.lock().unwrap();
  s[idx] = Some(Slot { since: std::time::Instant::now(), what: what() });
  InCall(idx)
}

static ABORT_FD: std::sync::atomic::AtomicI32 = std::sync::atomic::AtomicI32::new(-1);

extern "C" fn on_abort(_sig: libc::c_int) {
  // async-signal context: no allocation; dump the inputs of the calls in flight and leave
  let fd = ABORT_FD.load(std::sync::atomic::Ordering::Relaxed);
  if fd >= 0 {
    // the call that has been running longest is the one that exhausted its (512 MiB) stack; no allocation here
    if let Ok(s) = SLOTS.try_lock() {
      let mut best: Option<&Slot> = None;
      for x in s.iter().flatten() {
        if best.map(|b| x.since < b.since).unwrap_or(true) {
          best = Some(x);
        }
      }
      if let Some(x) = best {
        unsafe {
          libc::write(fd, x.what.as_ptr() as *const libc::c_void, x.what.len());
          libc::write(fd, b"\n".as_ptr() as *const libc::c_void, 1);
        }
      }
    }
  }
  unsafe { libc::_exit(3) };
}

/// Install a SIGABRT handler that saves the inputs of all calls in flight to `path` (one JSON per
/// line) and exits with status 3: stack overflows and allocation failures inside the crate under test
/// abort the process, and the run must still say which input did it.
pub fn install_abort_dump(path: &std::path::Path) {
  if let Ok(c) = std::ffi::CString::new(path.to_string_lossy().as_bytes()) {
    let fd = unsafe { libc::open(c.as_ptr(), libc::O_WRONLY | libc::O_CREAT | libc::O_TRUNC, 0o644) };
    ABORT_FD.store(fd, std::sync::atomic::Ordering::Relaxed);
    unsafe {
      libc::signal(libc::SIGABRT, on_abort as usize);
    }
  }
}

/// Start the watchdog thread. `on_hang` receives the description of the stuck call.
pub fn start_watchdog(limit_s: u64, on_hang: impl Fn(String) + Send + 'static) {
  std::thread::spawn(move || loop {
    std::thread::sleep(std::time::Duration::from_millis(500));
    let stuck = {
      let s = SLOTS.lock().unwrap();
      s.iter().flatten().find(|x| x.since.elapsed().as_secs() >= limit_s).map(|x| x.what.clone())
    };
    if let Some(w) = stuck {
      on_hang(w);
    }
  });
}

pub fn validate_json(schema: &str, json: &str) -> V {
  validate_json_feat(schema, json, None)
}

pub fn validate_json_feat(schema: &str, json: &str, feats: Option<&[&str]>) -> V {
  if feats.is_none() && isolated() {
    return worker_call("json", schema, json.as_bytes());
  }
  validate_json_local(schema, json, feats)
}

pub fn validate_json_local(schema: &str, json: &str, feats: Option<&[&str]>) -> V {
  use cddl::validator::json::Error as E;
  let _w = in_call(|| serde_json::json!({"call": "validate_json_from_str", "schema": schema, "json": json}).to_string());
  match guard(|| cddl::validate_json_from_str(schema, json, feats)) {
    Err(p) => V::Panic(p),
    Ok(Ok(())) => V::Ok,
    Ok(Err(E::Validation(l))) => {
      V::Invalid(l.into_iter().map(|e| (e.json_location, e.reason)).collect())
    }
    Ok(Err(E::CDDLParsing(s))) => V::SchemaErr(s),
    Ok(Err(E::JSONParsing(e))) => V::DocErr(e.to_string()),
    Ok(Err(e)) => V::OtherErr(e.to_string()),
  }
}

pub fn validate_cbor(schema: &str, bytes: &[u8]) -> V {
  validate_cbor_feat(schema, bytes, None)
}

pub fn validate_cbor_feat(schema: &str, bytes: &[u8], feats: Option<&[&str]>) -> V {
  if feats.is_none() && isolated() {
    return worker_call("cbor", schema, bytes);
  }
  validate_cbor_local(schema, bytes, feats)
}

pub fn validate_cbor_local(schema: &str, bytes: &[u8], feats: Option<&[&str]>) -> V {
  use cddl::validator::cbor::Error as E;
  let _w = in_call(|| serde_json::json!({"call": "validate_cbor_from_slice", "schema": schema, "cbor": crate::cbor::hex(bytes)}).to_string());
  match guard(|| cddl::validate_cbor_from_slice(schema, bytes, feats)) {
    Err(p) => V::Panic(p),
    Ok(Ok(())) => V::Ok,
    Ok(Err(E::Validation(l))) => {
      V::Invalid(l.into_iter().map(|e| (e.cbor_location, e.reason)).collect())
    }
    Ok(Err(E::CDDLParsing(s))) => V::SchemaErr(s),
    Ok(Err(E::CBORParsing(e))) => V::DocErr(e.to_string()),
    Ok(Err(e)) => V::OtherErr(e.to_string()),
  }
}

pub fn validate_csv(schema: &str, csv: &str, header: Option<bool>) -> V {
  validate_csv_feat(schema, csv, header, None)
}

pub fn validate_csv_feat(schema: &str, csv: &str, header: Option<bool>, feats: Option<&[&str]>) -> V {
  use cddl::validator::csv_validator::Error as E;
  use cddl::validator::json::Error as JE;
  let _w = in_call(|| serde_json::json!({"call": "validate_csv_from_str", "schema": schema, "csv": csv}).to_string());
  match guard(|| cddl::validate_csv_from_str(schema, csv, header, feats)) {
    Err(p) => V::Panic(p),
    Ok(Ok(())) => V::Ok,
    Ok(Err(E::Validation(l))) => {
      V::Invalid(l.into_iter().map(|e| (e.json_location, e.reason)).collect())
    }
    Ok(Err(E::JSONValidation(JE::Validation(l)))) => {
      V::Invalid(l.into_iter().map(|e| (e.json_location, e.reason)).collect())
    }
    Ok(Err(E::CDDLParsing(s))) => V::SchemaErr(s),
    Ok(Err(E::CSVParsing(e))) => V::DocErr(e.to_string()),
    Ok(Err(e)) => V::OtherErr(e.to_string()),
  }
}

/// Parse; on success hand the AST to `f`.  Err(Ok(msg)) = rejected, Err(Err(p)) = panic.
pub fn with_parsed<T>(
  text: &str,
  f: impl FnOnce(&cddl::ast::CDDL) -> T,
) -> Result<T, Result<String, String>> {
  let _w = in_call(|| serde_json::json!({"call": "cddl_from_str (+ closure)", "text": text}).to_string());
  match guard(|| cddl::cddl_from_str(text, false).map(|c| f(&c))) {
    Err(p) => Err(Err(p)),
    Ok(Ok(t)) => Ok(t),
    Ok(Err(e)) => Err(Ok(e)),
  }
}

/// Some(true) accepted, Some(false) rejected, None panicked
pub fn parses(text: &str) -> Option<bool> {
  match with_parsed(text, |_| ()) {
    Ok(()) => Some(true),
    Err(Ok(_)) => Some(false),
    Err(Err(_)) => None,
  }
}

/// Parse and format. Ok(text) / Err(Ok(parse error)) / Err(Err(panic))
pub fn format(text: &str) -> Result<String, Result<String, String>> {
  with_parsed(text, |c| c.to_string())
}


// ---------------------------------------------------------------------------------------
// Process isolation: validator calls can abort the process (stack overflow, allocation failure) or
// never return; with isolation on they run in a per-thread child `vcheck worker` over pipes.
// ---------------------------------------------------------------------------------------

static ISOLATE: std::sync::atomic::AtomicBool = std::sync::atomic::AtomicBool::new(false);
static CALL_LIMIT_MS: std::sync::atomic::AtomicU64 = std::sync::atomic::AtomicU64::new(10_000);

pub fn set_isolated(on: bool, call_limit_ms: u64) {
  ISOLATE.store(on, std::sync::atomic::Ordering::SeqCst);
  CALL_LIMIT_MS.store(call_limit_ms, std::sync::atomic::Ordering::SeqCst);
}

pub fn isolated() -> bool {
  ISOLATE.load(std::sync::atomic::Ordering::Relaxed)
}

struct Worker {
  child: std::process::Child,
  stdin: std::process::ChildStdin,
  stdout: std::process::ChildStdout,
  buf: Vec<u8>,
}

thread_local! {
  static WORKER: RefCell<Option<Worker>> = RefCell::new(None);
}

fn spawn_worker() -> Worker {
  let exe = std::env::current_exe().expect("current_exe");
  let mut child = std::process::Command::new(exe)
    .arg("worker")
    .stdin(std::process::Stdio::piped())
    .stdout(std::process::Stdio::piped())
    .stderr(std::process::Stdio::null())
    .spawn()
    .expect("spawn worker");
  let stdin = child.stdin.take().unwrap();
  let stdout = child.stdout.take().unwrap();
  Worker { child, stdin, stdout, buf: vec![] }
}

enum Resp {
  Line(String),
  Died(String),
  Timeout,
}

fn roundtrip(w: &mut Worker, req: &str, limit_ms: u64) -> Resp {
  use std::io::{Read, Write};
  use std::os::unix::io::AsRawFd;
  if w.stdin.write_all(req.as_bytes()).and_then(|_| w.stdin.write_all(b"\n")).and_then(|_| w.stdin.flush()).is_err() {
    let st = w.child.wait().map(|s| format!("{}", s)).unwrap_or_default();
    return Resp::Died(st);
  }
  let fd = w.stdout.as_raw_fd();
  let start = std::time::Instant::now();
  loop {
    if let Some(pos) = w.buf.iter().position(|b| *b == b'\n') {
      let line: Vec<u8> = w.buf.drain(..=pos).collect();
      return Resp::Line(String::from_utf8_lossy(&line[..line.len() - 1]).to_string());
    }
    let elapsed = start.elapsed().as_millis() as u64;
    if elapsed >= limit_ms {
      return Resp::Timeout;
    }
    let mut pfd = libc::pollfd { fd, events: libc::POLLIN, revents: 0 };
    let r = unsafe { libc::poll(&mut pfd, 1, (limit_ms - elapsed).min(1000) as i32) };
    if r > 0 {
      let mut chunk = [0u8; 65536];
      match w.stdout.read(&mut chunk) {
        Ok(0) | Err(_) => {
          let st = w.child.wait().map(|s| format!("{}", s)).unwrap_or_default();
          return Resp::Died(st);
        }
        Ok(n) => w.buf.extend_from_slice(&chunk[..n]),
      }
    }
  }
}

/// Drop this thread's worker process: the next `worker_call` starts a fresh one.
pub fn reset_worker() {
  WORKER.with(|cell| {
    if let Some(mut w) = cell.borrow_mut().take() {
      drop(w.stdin);
      let _ = w.child.kill();
      let _ = w.child.wait();
    }
  });
}

pub fn worker_call(kind: &str, schema: &str, doc: &[u8]) -> V {
  worker_call_feat(kind, schema, doc, None)
}

/// kinds json / cbor / csv0 (header None) / csv1 (header Some(true)) honour `feats`
pub fn worker_call_feat(kind: &str, schema: &str, doc: &[u8], feats: Option<&[&str]>) -> V {
  let req = serde_json::json!({"k": kind, "s": schema, "d": crate::cbor::hex(doc), "f": feats}).to_string();
  let limit = CALL_LIMIT_MS.load(std::sync::atomic::Ordering::Relaxed);
  WORKER.with(|cell| {
    let mut slot = cell.borrow_mut();
    if slot.is_none() {
      *slot = Some(spawn_worker());
    }
    let resp = roundtrip(slot.as_mut().unwrap(), &req, limit);
    match resp {
      Resp::Line(l) => decode_v(&l),
      Resp::Died(st) => {
        *slot = None;
        V::Abort(st)
      }
      Resp::Timeout => {
        if let Some(mut w) = slot.take() {
          let _ = w.child.kill();
          let _ = w.child.wait();
        }
        V::Hang
      }
    }
  })
}

fn encode_v(v: &V) -> String {
  use serde_json::json;
  match v {
    V::Ok => json!({"v": "ok"}),
    V::Invalid(l) => json!({"v": "invalid", "e": l}),
    V::SchemaErr(s) => json!({"v": "schema_err", "m": s}),
    V::DocErr(s) => json!({"v": "doc_err", "m": s}),
    V::OtherErr(s) => json!({"v": "other_err", "m": s}),
    V::Panic(s) => json!({"v": "panic", "m": s}),
    V::Abort(s) => json!({"v": "abort", "m": s}),
    V::Hang => json!({"v": "hang"}),
  }
  .to_string()
}

fn decode_v(l: &str) -> V {
  let j: serde_json::Value = match serde_json::from_str(l) {
    Ok(j) => j,
    Err(_) => return V::OtherErr(format!("bad worker response: {}", l)),
  };
  let m = j["m"].as_str().unwrap_or("").to_string();
  match j["v"].as_str().unwrap_or("") {
    "ok" => V::Ok,
    "invalid" => V::Invalid(
      j["e"]
        .as_array()
        .map(|a| a.iter().map(|p| (p[0].as_str().unwrap_or("").to_string(), p[1].as_str().unwrap_or("").to_string())).collect())
        .unwrap_or_default(),
    ),
    "schema_err" => V::SchemaErr(m),
    "doc_err" => V::DocErr(m),
    "panic" => V::Panic(m),
    "abort" => V::Abort(m),
    "hang" => V::Hang,
    _ => V::OtherErr(m),
  }
}

/// `vcheck worker`: serve validation requests on stdin/stdout until EOF. Runs on the main thread (8 MiB
/// stack, what a CLI user gets); address space limited so that absurd allocations fail instead of swapping.
pub fn worker_main() {
  use std::io::{BufRead, Write};
  unsafe {
    let lim = libc::rlimit { rlim_cur: 4 << 30, rlim_max: 4 << 30 };
    libc::setrlimit(libc::RLIMIT_AS, &lim);
    // the protocol owns fd 1: the library prints on its own
    let proto = libc::dup(1);
    let dn = libc::open(b"/dev/null\0".as_ptr() as *const libc::c_char, libc::O_WRONLY);
    libc::dup2(dn, 1);
    libc::dup2(dn, 2);
    install_panic_hook();
    let mut out = <std::fs::File as std::os::unix::io::FromRawFd>::from_raw_fd(proto);
    let stdin = std::io::stdin();
    for line in stdin.lock().lines() {
      let line = match line {
        Ok(l) => l,
        Err(_) => break,
      };
      let j: serde_json::Value = match serde_json::from_str(&line) {
        Ok(j) => j,
        Err(_) => continue,
      };
      let schema = j["s"].as_str().unwrap_or("");
      let doc = crate::cbor::unhex(j["d"].as_str().unwrap_or(""));
      let fowned: Option<Vec<String>> = j["f"].as_array().map(|a| a.iter().filter_map(|x| x.as_str().map(|s| s.to_string())).collect());
      let frefs: Option<Vec<&str>> = fowned.as_ref().map(|v| v.iter().map(|s| s.as_str()).collect());
      let feats: Option<&[&str]> = frefs.as_deref();
      let v = match j["k"].as_str().unwrap_or("") {
        "json" => validate_json_local(schema, &String::from_utf8_lossy(&doc), feats),
        "cbor" => validate_cbor_local(schema, &doc, feats),
        "csv0" => validate_csv_feat(schema, &String::from_utf8_lossy(&doc), Some(false), feats),
        "csvn" => validate_csv_feat(schema, &String::from_utf8_lossy(&doc), None, feats),
        "csv1" => validate_csv_feat(schema, &String::from_utf8_lossy(&doc), Some(true), feats),
        "parse" => parse_all_local(&doc),
        "decode" => match guard(|| cddl::validator::cbor_value::decode_cbor(&doc).map(|_| ())) {
          Err(p) => V::Panic(p),
          Ok(Ok(())) => V::Ok,
          Ok(Err(e)) => V::DocErr(e.to_string()),
        },
        _ => V::OtherErr("unknown request".into()),
      };
      let _ = writeln!(out, "{}", encode_v(&v));
      let _ = out.flush();
    }
  }
}


/// The parsing-side entry points on one input: cddl_from_str, Display of the AST (and a re-parse of the output),
/// CDDL::from_slice (checked parse, bytes need not be UTF-8) and ParentVisitor::new.
pub fn parse_all_local(bytes: &[u8]) -> V {
  let r = guard(|| {
    let _ = cddl::ast::CDDL::from_slice(bytes);
    let text = match std::str::from_utf8(bytes) {
      Ok(t) => t,
      Err(_) => return Err("not utf-8".to_string()),
    };
    match cddl::cddl_from_str(text, false) {
      Ok(c) => {
        let s = c.to_string();
        let _ = cddl::cddl_from_str(&s, false);
        let _ = cddl::ast::parent::ParentVisitor::new(&c).is_ok();
        Ok(())
      }
      Err(e) => Err(e),
    }
  });
  match r {
    Err(p) => V::Panic(p),
    Ok(Ok(())) => V::Ok,
    Ok(Err(e)) => V::SchemaErr(e),
  }
}
