//! Panic-safe wrappers around the public API of the crate under test.
use std::cell::RefCell;
use std::panic::{catch_unwind, AssertUnwindSafe};

thread_local! {
  static LAST_PANIC: RefCell<String> = RefCell::new(String::new());
}

/// Silent hook that remembers `file:line: message` of the last panic on this thread.
pub fn install_panic_hook() {
  std::panic::set_hook(Box::new(|info| {
    let loc = info
      .location()
      .map(|l| format!("{}:{}", l.file(), l.line()))
      .unwrap_or_else(|| "?".into());
    let msg = if let Some(s) = info.payload().downcast_ref::<&str>() {
      s.to_string()
    } else if let Some(s) = info.payload().downcast_ref::<String>() {
      s.clone()
    } else {
      String::new()
    };
    let mut m: String = msg.chars().take(160).collect();
    m = m.replace('\n', " ");
    LAST_PANIC.with(|p| *p.borrow_mut() = format!("{}: {}", loc, m));
  }));
}

pub fn last_panic() -> String {
  LAST_PANIC.with(|p| p.borrow().clone())
}

/// Location part (`path:line`) of a recorded panic, with the path made relative to the
/// crate under test so that known-finding keys do not depend on line numbers elsewhere.
pub fn panic_site(p: &str) -> String {
  let loc = p.split(": ").next().unwrap_or(p);
  loc.to_string()
}

/// Verdict of a validation call.
#[derive(Clone, Debug, PartialEq)]
pub enum V {
  Ok,
  /// Err(Validation(list)): (location, reason)
  Invalid(Vec<(String, String)>),
  SchemaErr(String),
  DocErr(String),
  OtherErr(String),
  Panic(String),
}

impl V {
  pub fn accepts(&self) -> bool {
    matches!(self, V::Ok)
  }
  pub fn class(&self) -> &'static str {
    match self {
      V::Ok => "ok",
      V::Invalid(_) => "invalid",
      V::SchemaErr(_) => "schema_err",
      V::DocErr(_) => "doc_err",
      V::OtherErr(_) => "other_err",
      V::Panic(_) => "panic",
    }
  }
  pub fn brief(&self) -> String {
    match self {
      V::Ok => "ok".into(),
      V::Invalid(l) => format!(
        "invalid[{}]: {}",
        l.len(),
        l.first().map(|x| format!("{} @ {:?}", x.1, x.0)).unwrap_or_default()
      ),
      V::SchemaErr(s) => format!("schema_err: {}", s),
      V::DocErr(s) => format!("doc_err: {}", s),
      V::OtherErr(s) => format!("other_err: {}", s),
      V::Panic(s) => format!("panic: {}", s),
    }
  }
}

fn guard<T>(f: impl FnOnce() -> T) -> Result<T, String> {
  catch_unwind(AssertUnwindSafe(f)).map_err(|_| last_panic())
}

// ---------------------------------------------------------------------------------------
// Watchdog: every call into the crate under test registers what it is doing; a background
// thread ends the run (exit 2 = inconclusive) when one call does not return in time and
// saves the inputs of the stuck call, so that a hang is never silent and never a violation
// by timing alone.
// ---------------------------------------------------------------------------------------

struct Slot {
  since: std::time::Instant,
  what: String,
}

static SLOTS: std::sync::Mutex<Vec<Option<Slot>>> = std::sync::Mutex::new(Vec::new());

thread_local! {
  static MY_SLOT: std::cell::Cell<usize> = std::cell::Cell::new(usize::MAX);
}

pub struct InCall(usize);

impl Drop for InCall {
  fn drop(&mut self) {
    if let Ok(mut s) = SLOTS.lock() {
      if let Some(x) = s.get_mut(self.0) {
        *x = None;
      }
    }
  }
}

/// Register the start of a call into the crate under test.
pub fn in_call(what: impl FnOnce() -> String) -> InCall {
  let idx = MY_SLOT.with(|c| {
    if c.get() == usize::MAX {
      let mut s = SLOTS.lock().unwrap();
      s.push(None);
      c.set(s.len() - 1);
    }
    c.get()
  });
  let mut s = SLOTS.lock().unwrap();
  s[idx] = Some(Slot { since: std::time::Instant::now(), what: what() });
  InCall(idx)
}

/// Start the watchdog thread. `on_hang` receives the description of the stuck call.
pub fn start_watchdog(limit_s: u64, on_hang: impl Fn(String) + Send + 'static) {
  std::thread::spawn(move || loop {
    std::thread::sleep(std::time::Duration::from_millis(500));
    let stuck = {
      let s = SLOTS.lock().unwrap();
      s.iter().flatten().find(|x| x.since.elapsed().as_secs() >= limit_s).map(|x| x.what.clone())
    };
    if let Some(w) = stuck {
      on_hang(w);
    }
  });
}

pub fn validate_json(schema: &str, json: &str) -> V {
  validate_json_feat(schema, json, None)
}

pub fn validate_json_feat(schema: &str, json: &str, feats: Option<&[&str]>) -> V {
  use cddl::validator::json::Error as E;
  let _w = in_call(|| serde_json::json!({"call": "validate_json_from_str", "schema": schema, "json": json}).to_string());
  match guard(|| cddl::validate_json_from_str(schema, json, feats)) {
    Err(p) => V::Panic(p),
    Ok(Ok(())) => V::Ok,
    Ok(Err(E::Validation(l))) => {
      V::Invalid(l.into_iter().map(|e| (e.json_location, e.reason)).collect())
    }
    Ok(Err(E::CDDLParsing(s))) => V::SchemaErr(s),
    Ok(Err(E::JSONParsing(e))) => V::DocErr(e.to_string()),
    Ok(Err(e)) => V::OtherErr(e.to_string()),
  }
}

pub fn validate_cbor(schema: &str, bytes: &[u8]) -> V {
  validate_cbor_feat(schema, bytes, None)
}

pub fn validate_cbor_feat(schema: &str, bytes: &[u8], feats: Option<&[&str]>) -> V {
  use cddl::validator::cbor::Error as E;
  let _w = in_call(|| serde_json::json!({"call": "validate_cbor_from_slice", "schema": schema, "cbor": crate::cbor::hex(bytes)}).to_string());
  match guard(|| cddl::validate_cbor_from_slice(schema, bytes, feats)) {
    Err(p) => V::Panic(p),
    Ok(Ok(())) => V::Ok,
    Ok(Err(E::Validation(l))) => {
      V::Invalid(l.into_iter().map(|e| (e.cbor_location, e.reason)).collect())
    }
    Ok(Err(E::CDDLParsing(s))) => V::SchemaErr(s),
    Ok(Err(E::CBORParsing(e))) => V::DocErr(e.to_string()),
    Ok(Err(e)) => V::OtherErr(e.to_string()),
  }
}

pub fn validate_csv(schema: &str, csv: &str, header: Option<bool>) -> V {
  use cddl::validator::csv_validator::Error as E;
  use cddl::validator::json::Error as JE;
  let _w = in_call(|| serde_json::json!({"call": "validate_csv_from_str", "schema": schema, "csv": csv}).to_string());
  match guard(|| cddl::validate_csv_from_str(schema, csv, header, None)) {
    Err(p) => V::Panic(p),
    Ok(Ok(())) => V::Ok,
    Ok(Err(E::Validation(l))) => {
      V::Invalid(l.into_iter().map(|e| (e.json_location, e.reason)).collect())
    }
    Ok(Err(E::JSONValidation(JE::Validation(l)))) => {
      V::Invalid(l.into_iter().map(|e| (e.json_location, e.reason)).collect())
    }
    Ok(Err(E::CDDLParsing(s))) => V::SchemaErr(s),
    Ok(Err(E::CSVParsing(e))) => V::DocErr(e.to_string()),
    Ok(Err(e)) => V::OtherErr(e.to_string()),
  }
}

/// Parse; on success hand the AST to `f`.  Err(Ok(msg)) = rejected, Err(Err(p)) = panic.
pub fn with_parsed<T>(
  text: &str,
  f: impl FnOnce(&cddl::ast::CDDL) -> T,
) -> Result<T, Result<String, String>> {
  let _w = in_call(|| serde_json::json!({"call": "cddl_from_str (+ closure)", "text": text}).to_string());
  match guard(|| cddl::cddl_from_str(text, false).map(|c| f(&c))) {
    Err(p) => Err(Err(p)),
    Ok(Ok(t)) => Ok(t),
    Ok(Err(e)) => Err(Ok(e)),
  }
}

/// Some(true) accepted, Some(false) rejected, None panicked
pub fn parses(text: &str) -> Option<bool> {
  match with_parsed(text, |_| ()) {
    Ok(()) => Some(true),
    Err(Ok(_)) => Some(false),
    Err(Err(_)) => None,
  }
}

/// Parse and format. Ok(text) / Err(Ok(parse error)) / Err(Err(panic))
pub fn format(text: &str) -> Result<String, Result<String, String>> {
  with_parsed(text, |c| c.to_string())
}
