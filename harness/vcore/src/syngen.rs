//! Random derivations of the CDDL grammar (syntactically valid, semantically arbitrary).
use crate::cmodel::*;
use crate::engine::Tape;

pub const CONTROLS_STD: &[&str] = &[
  "size", "bits", "regexp", "pcre", "cbor", "cborseq", "within", "and", "lt", "le", "gt", "ge", "eq", "ne", "default",
];
pub const CONTROLS_ADDITIONAL: &[&str] = &[
  "cat", "det", "plus", "abnf", "abnfb", "feature", "b64u", "b64c", "b64u-sloppy", "b64c-sloppy", "hex", "hexlc",
  "hexuc", "b32", "h32", "b45", "base10", "printf", "json", "join",
];
pub const CONTROLS_FREEZER: &[&str] = &["iregexp", "bitfield"];

pub const PRELUDE: &[&str] = &[
  "int", "uint", "tstr", "bstr", "bool", "float", "any", "nil", "text", "bytes", "number", "null", "true", "false",
  "nint", "float16", "float32", "float64", "tdate", "time", "uri", "biguint", "undefined",
];

pub const RULE_NAMES: &[&str] = &[
  "a", "b", "c", "foo", "bar-baz", "x.y", "_u", "@at", "t1", "long-name.with-parts2", "Q", "d9", "e_f", "g$h", "i--j",
];

#[derive(Clone)]
pub struct SynOpts {
  pub depth: usize,
  pub max_rules: usize,
  pub generics: bool,
  pub sockets: bool,
  pub tags: bool,
  pub bytes: bool,
  pub floats: bool,
  pub additional_controls: bool,
  pub freezer_controls: bool,
  /// small pools so that identical sub-expressions repeat (C20)
  pub tiny_pools: bool,
  /// avoid double '-'/'.' inside identifiers (known parser deviation)
  pub no_double_dash_ids: bool,
  /// avoid text literals that need escapes
  pub plain_text_only: bool,
  /// avoid `#6` / `#6.n` without content
  pub no_bare_tag6: bool,
  pub no_type_tagnum: bool,
  /// `$$name` only where a group name is expected (bare group entry)
  pub no_group_socket_in_type_pos: bool,
  /// `$name` only where a type name is expected (not after `&`)
  pub no_type_socket_in_group_pos: bool,
  /// no `(type) => ...` member key (open finding: read as an inline group)
  pub no_paren_at_arrow_key_head: bool,
  /// float literals with a radix mantissa (0b1e2, 0x1.5): derivable, rejected by the crate (open finding)
  pub radix_float_literals: bool,
  /// byte strings with an escaped apostrophe ('it\\'s')
  pub escaped_quote_in_bytes: bool,
  /// `-0`, byte strings with raw line breaks
  pub odd_spellings: bool,
  /// h'..' / b64'..' literals spelled over two lines with a `; text` inside the quotes (RFC 8610 section 3.1)
  pub bytes_with_inner_comment: bool,
}

impl Default for SynOpts {
  fn default() -> Self {
    SynOpts {
      depth: 3,
      max_rules: 5,
      generics: true,
      sockets: true,
      tags: true,
      bytes: true,
      floats: true,
      additional_controls: true,
      freezer_controls: true,
      tiny_pools: false,
      no_double_dash_ids: false,
      plain_text_only: false,
      no_bare_tag6: false,
      no_type_tagnum: false,
      no_group_socket_in_type_pos: false,
      no_type_socket_in_group_pos: false,
      no_paren_at_arrow_key_head: false,
      radix_float_literals: false,
      escaped_quote_in_bytes: false,
      odd_spellings: true,
      bytes_with_inner_comment: false,
    }
  }
}

pub struct SynGen<'a, 'b, 'o> {
  pub t: &'a mut Tape<'b>,
  pub o: &'o SynOpts,
  /// generic parameters in scope
  params: Vec<String>,
}

const TEXTS_PLAIN: &[&str] = &["", "a", "abc", "key", "hello world", "x;y", "a//b", "caf\u{e9}", "\u{4e16}\u{754c}", "\u{1f600}"];
const TEXTS_ESC: &[&str] = &["C:\\users", "\\u", "\\uD800x", "\\u{110000}", "q\"q", "back\\slash", "line\nbreak", "tab\there", "\"", "\\", "a\"b\\c", "nul\u{0}", "del\u{7f}", "cr\rlf"];
const FLOATS: &[f64] = &[1.5, -0.25, 0.5, 1.0, -1.0, 10.0, 1e10, 1e-7, 3.25, 0.1, 1e300, 123456.789];
const INTS: &[i128] = &[0, 1, 2, 3, 10, 23, 24, 255, 256, 65535, 65536, -1, -2, -24, -25, -256, 1000000, 4294967295, 4294967296];

impl<'a, 'b, 'o> SynGen<'a, 'b, 'o> {
  pub fn new(t: &'a mut Tape<'b>, o: &'o SynOpts) -> Self {
    SynGen { t, o, params: vec![] }
  }

  fn rule_name(&mut self, i: usize) -> String {
    let pool: Vec<&str> =
      RULE_NAMES.iter().copied().filter(|n| !(self.o.no_double_dash_ids && n.contains("--"))).collect();
    let n = if self.o.tiny_pools { 3 } else { pool.len() };
    pool[i % n.min(pool.len())].to_string()
  }

  pub fn any_name(&mut self) -> String {
    if !self.params.is_empty() && self.t.chance(1, 3) {
      return self.t.pick(&self.params.clone()).clone();
    }
    if self.o.tiny_pools {
      return (*self.t.pick(&["int", "tstr", "a", "b"])).to_string();
    }
    match self.t.below(10) {
      0..=4 => (*self.t.pick(PRELUDE)).to_string(),
      5..=8 => {
        let i = self.t.below(RULE_NAMES.len());
        self.rule_name(i)
      }
      _ => {
        if self.o.sockets {
          let i = self.t.below(RULE_NAMES.len());
          let p = if self.t.flag() || self.o.no_group_socket_in_type_pos { "$" } else { "$$" };
          format!("{}{}", p, self.rule_name(i))
        } else {
          "int".to_string()
        }
      }
    }
  }

  pub fn lit(&mut self) -> Lit {
    if self.o.tiny_pools {
      return match self.t.below(3) {
        0 => Lit::int(1),
        1 => Lit::text("a"),
        _ => Lit::int(2),
      };
    }
    let w = [40, 30, if self.o.floats { 12 } else { 0 }, if self.o.bytes { 12 } else { 0 }];
    match self.t.weighted(&w) {
      0 if self.o.odd_spellings && self.t.chance(1, 12) => Lit::Int { v: 0, sp: "-0".to_string() },
      0 => {
        let v = *self.t.pick(INTS);
        // occasionally a radix spelling
        if v >= 0 && self.t.chance(1, 6) {
          let sp = if self.t.flag() { format!("0x{:x}", v) } else { format!("0b{:b}", v) };
          Lit::Int { v, sp }
        } else if v < 0 && self.t.chance(1, 8) {
          Lit::Int { v, sp: format!("-0x{:X}", -v) }
        } else {
          Lit::int(v)
        }
      }
      1 => {
        if self.o.plain_text_only || !self.t.chance(1, 4) {
          Lit::text(*self.t.pick(TEXTS_PLAIN))
        } else {
          Lit::text(*self.t.pick(TEXTS_ESC))
        }
      }
      2 => {
        if self.o.radix_float_literals && self.t.chance(1, 6) {
          let (v, sp) = *self.t.pick(&[(4.0f64, "0b1e2"), (1.5, "0x1.5"), (-300.0, "-0b11e2"), (16.0, "0x10e0")]);
          Lit::Float { v, sp: sp.to_string() }
        } else {
          Lit::float(*self.t.pick(FLOATS))
        }
      }
      _ => match self.t.below(3) {
        0 => {
          if self.o.escaped_quote_in_bytes && self.t.chance(1, 5) {
            Lit::Bytes { kind: BytesKind::Utf8, v: b"it's".to_vec(), sp: "'it\\'s'".to_string() }
          } else {
            let pool: &[&str] = if self.o.odd_spellings { &["", "abc", "x y", "b;c", "\u{e9}", "l1\nl2", "cr\r\nlf", "q\"q"] } else { &["", "abc", "x y", "b;c", "\u{e9}"] };
            Lit::bytes_utf8(*self.t.pick(pool))
          }
        }
        1 => {
          let n = self.t.below(5);
          let v: Vec<u8> = (0..n).map(|_| self.t.below(256) as u8).collect();
          if self.o.bytes_with_inner_comment && n >= 2 && self.t.chance(1, 2) {
            let mut sp = String::from("h'");
            for (i, b) in v.iter().enumerate() {
              if i == 1 {
                sp.push_str(" ; inner-note\n  ");
              }
              sp.push_str(&format!("{:02x}", b));
            }
            sp.push('\'');
            Lit::Bytes { kind: BytesKind::Hex, v, sp }
          } else {
            Lit::bytes_hex(&v)
          }
        }
        _ => {
          let n = self.t.below(5);
          let v: Vec<u8> = (0..n).map(|_| self.t.below(256) as u8).collect();
          let enc = b64url_nopad(&v);
          if self.o.bytes_with_inner_comment && enc.len() >= 3 && self.t.chance(1, 2) {
            Lit::Bytes { kind: BytesKind::B64, sp: format!("b64'{} ; inner-note\n  {}'", &enc[..2], &enc[2..]), v }
          } else {
            Lit::Bytes { kind: BytesKind::B64, sp: format!("b64'{}'", enc), v }
          }
        }
      },
    }
  }

  fn args(&mut self, d: usize) -> Vec<Ty1> {
    if !self.o.generics || !self.t.chance(1, 8) {
      return vec![];
    }
    let n = 1 + self.t.below(2);
    (0..n).map(|_| self.ty1(d.saturating_sub(1))).collect()
  }

  fn ctl_name(&mut self) -> String {
    let mut pool: Vec<&str> = CONTROLS_STD.to_vec();
    if self.o.additional_controls {
      pool.extend_from_slice(CONTROLS_ADDITIONAL);
    }
    if self.o.freezer_controls {
      pool.extend_from_slice(CONTROLS_FREEZER);
    }
    (*self.t.pick(&pool)).to_string()
  }

  fn tagnum(&mut self, d: usize) -> Option<TagNum> {
    match self.t.below(8) {
      0 => None,
      7 if !self.o.no_type_tagnum => Some(TagNum::Ty(Box::new(self.ty(d.min(1))))),
      _ => {
        let v = *self.t.pick(&[0u64, 1, 2, 21, 24, 32, 255, 1234, 55799, 4294967296]);
        let sp = if self.t.chance(1, 6) { format!("0x{:x}", v) } else { v.to_string() };
        Some(TagNum::Lit(v, sp))
      }
    }
  }

  pub fn ty2(&mut self, d: usize) -> Ty2 {
    let leaf_only = d == 0;
    let w: [u32; 11] = [
      22,
      30,
      if leaf_only { 0 } else { 4 },
      if leaf_only { 0 } else { 9 },
      if leaf_only { 0 } else { 9 },
      3,
      if leaf_only { 0 } else { 2 },
      2,
      if self.o.tags && !leaf_only { 4 } else { 0 },
      if self.o.tags { 3 } else { 0 },
      2,
    ];
    match self.t.weighted(&w) {
      0 => Ty2::Lit(self.lit()),
      1 => {
        let name = self.any_name();
        let args = self.args(d);
        Ty2::Name { name, args }
      }
      2 => Ty2::Paren(self.ty(d - 1)),
      3 => Ty2::Map(self.grp(d - 1)),
      4 => Ty2::Arr(self.grp(d - 1)),
      5 => {
        let name = self.any_name();
        let args = self.args(d);
        Ty2::Unwrap { name, args }
      }
      6 => Ty2::ChoiceInline(self.grp(d - 1)),
      7 => {
        let mut name = self.any_name();
        if self.o.no_type_socket_in_group_pos && name.starts_with('$') && !name.starts_with("$$") {
          name = format!("${}", name);
        }
        let args = self.args(d);
        Ty2::ChoiceName { name, args }
      }
      8 => {
        let num = self.tagnum(d);
        Ty2::Tag { num, ty: self.ty(d - 1) }
      }
      9 => {
        let mut mt = self.t.below(8) as u8;
        if mt == 6 && self.o.no_bare_tag6 {
          mt = 7;
        }
        let num = if self.t.flag() {
          match self.tagnum(0) {
            Some(TagNum::Ty(_)) if mt != 7 => None,
            x => x,
          }
        } else {
          None
        };
        Ty2::Major { mt, num }
      }
      _ => Ty2::Any,
    }
  }

  pub fn ty1(&mut self, d: usize) -> Ty1 {
    let t2 = self.ty2(d);
    let op = match self.t.weighted(&[70, 12, 18]) {
      0 => None,
      1 => Some((Op::Range { inclusive: self.t.flag() }, self.ty2(0))),
      _ => Some((Op::Ctl(self.ctl_name()), self.ty2(d.min(1)))),
    };
    Ty1 { t2, op }
  }

  pub fn ty(&mut self, d: usize) -> Ty {
    let n = 1 + self.t.weighted(&[60, 22, 12, 6]);
    Ty((0..n).map(|_| self.ty1(d)).collect())
  }

  fn occ(&mut self) -> Option<Occ> {
    match self.t.weighted(&[55, 12, 12, 8, 13]) {
      0 => None,
      1 => Some(Occ::Opt),
      2 => Some(Occ::Star),
      3 => Some(Occ::Plus),
      _ => {
        let l = if self.t.flag() { Some(self.t.below(4) as u64) } else { None };
        let u = if self.t.flag() { Some(l.unwrap_or(0) + self.t.below(4) as u64) } else { None };
        if l.is_none() && u.is_none() {
          Some(Occ::Star)
        } else {
          Some(Occ::Range(l, u))
        }
      }
    }
  }

  pub fn ent(&mut self, d: usize) -> Ent {
    let occ = self.occ();
    let kind = match self.t.weighted(&[35, 22, 14, 22, if d > 0 { 8 } else { 0 }]) {
      0 => {
        let mut ty = self.ty(d);
        // a key-less entry that starts with "(" reads as an inline group: avoided here
        if matches!(ty.0[0].t2, Ty2::Paren(_)) {
          ty.0[0].t2 = Ty2::Name { name: "int".into(), args: vec![] };
        }
        EntKind::Val { key: None, ty }
      }
      1 => {
        let name = if self.t.chance(1, 4) {
          (*self.t.pick(PRELUDE)).to_string()
        } else {
          let i = self.t.below(RULE_NAMES.len());
          self.rule_name(i)
        };
        EntKind::Val { key: Some(Key::Bare(name)), ty: self.ty(d) }
      }
      2 => {
        let l = match self.lit() {
          // float / bytes keys with ':' are legal (value ":"), keep all kinds
          l => l,
        };
        EntKind::Val { key: Some(Key::Val(l)), ty: self.ty(d) }
      }
      3 => {
        let mut t1 = self.ty1(d.min(1));
        if self.o.no_paren_at_arrow_key_head && matches!(t1.t2, Ty2::Paren(_)) {
          t1.t2 = Ty2::Name { name: "int".into(), args: vec![] };
        }
        EntKind::Val { key: Some(Key::Arrow { t1, cut: self.t.chance(1, 3) }), ty: self.ty(d) }
      }
      _ => EntKind::Inline(self.grp(d - 1)),
    };
    Ent { occ, kind }
  }

  pub fn grp(&mut self, d: usize) -> Grp {
    let nc = 1 + self.t.weighted(&[78, 16, 6]);
    Grp(
      (0..nc)
        .map(|_| {
          let ne = self.t.weighted(&[8, 30, 25, 15, 12, 10]);
          (0..ne).map(|_| self.ent(d)).collect()
        })
        .collect(),
    )
  }

  /// group-rule body that cannot be read as a type
  fn group_rule_body(&mut self, d: usize) -> Ent {
    for _ in 0..8 {
      let e = self.ent(d.max(1));
      if unambiguous_group_entry(&e) {
        return e;
      }
    }
    Ent { occ: Some(Occ::Opt), kind: EntKind::Val { key: Some(Key::Bare("k".into())), ty: Ty::name("int") } }
  }

  /// type-rule body; `x = $$g` is grammatically ambiguous (type or group rule) and avoided
  fn type_rule_body(&mut self, d: usize) -> Ty {
    let mut t = self.ty(d);
    if t.0.len() == 1 && t.0[0].op.is_none() {
      if let Ty2::Name { name, .. } = &mut t.0[0].t2 {
        if name.starts_with("$$") {
          *name = name[2..].to_string();
        }
      }
    }
    t
  }

  pub fn schema(&mut self) -> Schema {
    let n = 1 + self.t.below(self.o.max_rules);
    let mut rules = vec![];
    let mut defined: Vec<(String, bool)> = vec![];
    for i in 0..n {
      self.params.clear();
      let d = self.o.depth;
      // an increment of an earlier rule?
      let alt_of = if !defined.is_empty() && self.t.chance(1, 5) { Some(self.t.below(defined.len())) } else { None };
      let (mut name, is_group, alt) = match alt_of {
        Some(k) => (defined[k].0.clone(), defined[k].1, true),
        None => (self.rule_name(i), self.t.chance(1, 4), false),
      };
      if alt_of.is_none() && self.o.sockets && self.t.chance(1, 10) {
        // sockets are normally only extended with /= and //=
        name = format!("{}{}", if is_group { "$$" } else { "$" }, name);
        let params = vec![];
        let body = if is_group { Body::Grp(self.group_rule_body(d)) } else { Body::Ty(self.type_rule_body(d)) };
        rules.push(RuleM { name, params, alt: true, body });
        continue;
      }
      let params: Vec<String> = if self.o.generics && self.t.chance(1, 6) {
        let k = 1 + self.t.below(2);
        ["T", "K"][..k].iter().map(|s| s.to_string()).collect()
      } else {
        vec![]
      };
      self.params = params.clone();
      let body = if is_group { Body::Grp(self.group_rule_body(d)) } else { Body::Ty(self.type_rule_body(d)) };
      if alt_of.is_none() {
        defined.push((name.clone(), is_group));
      }
      rules.push(RuleM { name, params, alt, body });
    }
    self.params.clear();
    Schema(rules)
  }
}

pub fn unambiguous_group_entry(e: &Ent) -> bool {
  if e.occ.is_some() {
    return true;
  }
  match &e.kind {
    EntKind::Val { key: Some(_), .. } => true,
    EntKind::Val { key: None, .. } => false,
    EntKind::Ref { .. } => false,
    EntKind::Inline(g) => {
      g.0.len() >= 2
        || g.0.iter().any(|gc| gc.len() != 1)
        || g.0.iter().any(|gc| gc.iter().any(|e| unambiguous_group_entry(e)))
    }
  }
}

pub fn b64url_nopad(v: &[u8]) -> String {
  const A: &[u8] = b"ABCDEFGHIJKLMNOPQRSTUVWXYZabcdefghijklmnopqrstuvwxyz0123456789-_";
  let mut s = String::new();
  for ch in v.chunks(3) {
    let b = [ch[0], *ch.get(1).unwrap_or(&0), *ch.get(2).unwrap_or(&0)];
    let n = ((b[0] as u32) << 16) | ((b[1] as u32) << 8) | b[2] as u32;
    s.push(A[(n >> 18) as usize & 63] as char);
    s.push(A[(n >> 12) as usize & 63] as char);
    if ch.len() > 1 {
      s.push(A[(n >> 6) as usize & 63] as char);
    }
    if ch.len() > 2 {
      s.push(A[n as usize & 63] as char);
    }
  }
  s
}
