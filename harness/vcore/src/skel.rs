//! `skel`: canonical S-expression of a `cddl::ast::CDDL` that keeps every construct,
//! marker, bound, name, operator and literal (kind and value; floats by bit pattern) and
//! drops only source positions, comment fields and the "was there a comma" flag.
use cddl::ast::*;
use cddl::token::{ByteValue, SocketPlug, TagConstraint, Value};
use std::fmt::Write;

pub struct Opt {
  /// collapse the grammar's own ambiguity: a bare (generic) name as group entry may be a
  /// type or a group name
  pub normalize_bare_names: bool,
}

pub fn skel(c: &CDDL) -> String {
  skel_opt(c, &Opt { normalize_bare_names: false })
}

pub fn skel_opt(c: &CDDL, o: &Opt) -> String {
  let mut s = String::new();
  for r in &c.rules {
    rule(&mut s, r, o);
    s.push('\n');
  }
  s
}

fn ident(s: &mut String, i: &Identifier) {
  match i.socket {
    Some(SocketPlug::TYPE) => s.push('$'),
    Some(SocketPlug::GROUP) => s.push_str("$$"),
    None => {}
  }
  s.push_str(i.ident);
}

fn gparams(s: &mut String, g: &Option<GenericParams>) {
  if let Some(g) = g {
    s.push('<');
    for (i, p) in g.params.iter().enumerate() {
      if i > 0 {
        s.push(',');
      }
      ident(s, &p.param);
    }
    s.push('>');
  }
}

fn gargs(s: &mut String, g: &Option<GenericArgs>, o: &Opt) {
  if let Some(g) = g {
    s.push('<');
    for (i, a) in g.args.iter().enumerate() {
      if i > 0 {
        s.push(',');
      }
      type1(s, &a.arg, o);
    }
    s.push('>');
  }
}

pub fn rule(s: &mut String, r: &Rule, o: &Opt) {
  match r {
    Rule::Type { rule, .. } => {
      s.push_str("(trule ");
      ident(s, &rule.name);
      gparams(s, &rule.generic_params);
      s.push_str(if rule.is_type_choice_alternate { " /= " } else { " = " });
      ty(s, &rule.value, o);
      s.push(')');
    }
    Rule::Group { rule, .. } => {
      s.push_str("(grule ");
      ident(s, &rule.name);
      gparams(s, &rule.generic_params);
      s.push_str(if rule.is_group_choice_alternate { " //= " } else { " = " });
      entry(s, &rule.entry, o);
      s.push(')');
    }
  }
}

pub fn ty(s: &mut String, t: &Type, o: &Opt) {
  s.push_str("(T");
  for tc in &t.type_choices {
    s.push(' ');
    type1(s, &tc.type1, o);
  }
  s.push(')');
}

pub fn type1(s: &mut String, t: &Type1, o: &Opt) {
  match &t.operator {
    None => type2(s, &t.type2, o),
    Some(op) => {
      s.push_str("(op ");
      match &op.operator {
        RangeCtlOp::RangeOp { is_inclusive, .. } => s.push_str(if *is_inclusive { ".." } else { "..." }),
        RangeCtlOp::CtlOp { ctrl, .. } => {
          let _ = write!(s, "{}", ctrl);
        }
      }
      s.push(' ');
      type2(s, &t.type2, o);
      s.push(' ');
      type2(s, &op.type2, o);
      s.push(')');
    }
  }
}

fn bytes_hex(s: &mut String, b: &[u8]) {
  for x in b {
    let _ = write!(s, "{:02x}", x);
  }
}

pub fn value(s: &mut String, v: &Value) {
  match v {
    Value::INT(i) => {
      let _ = write!(s, "(int {})", i);
    }
    Value::UINT(u) => {
      let _ = write!(s, "(uint {})", u);
    }
    Value::FLOAT(f) => {
      let _ = write!(s, "(float {:016x})", f.to_bits());
    }
    Value::TEXT(t) => {
      let _ = write!(s, "(text {:?})", t);
    }
    Value::BYTE(ByteValue::UTF8(b)) => {
      s.push_str("(bytes' ");
      bytes_hex(s, b);
      s.push(')');
    }
    Value::BYTE(ByteValue::B16(b)) => {
      s.push_str("(bytesh ");
      bytes_hex(s, b);
      s.push(')');
    }
    Value::BYTE(ByteValue::B64(b)) => {
      s.push_str("(bytesb64 ");
      bytes_hex(s, b);
      s.push(')');
    }
  }
}

fn tagc(s: &mut String, t: &Option<TagConstraint>) {
  match t {
    None => s.push('-'),
    Some(TagConstraint::Literal(n)) => {
      let _ = write!(s, "{}", n);
    }
    Some(TagConstraint::Type(t)) => {
      // raw source text of the type expression: compare modulo whitespace
      let compact: String = t.chars().filter(|c| !c.is_whitespace()).collect();
      let _ = write!(s, "<{}>", compact);
    }
  }
}

pub fn type2(s: &mut String, t: &Type2, o: &Opt) {
  match t {
    Type2::IntValue { value, .. } => {
      let _ = write!(s, "(int {})", value);
    }
    Type2::UintValue { value, .. } => {
      let _ = write!(s, "(uint {})", value);
    }
    Type2::FloatValue { value, .. } => {
      let _ = write!(s, "(float {:016x})", value.to_bits());
    }
    Type2::TextValue { value, .. } => {
      let _ = write!(s, "(text {:?})", value);
    }
    Type2::UTF8ByteString { value, .. } => {
      s.push_str("(bytes' ");
      bytes_hex(s, value);
      s.push(')');
    }
    Type2::B16ByteString { value, .. } => {
      s.push_str("(bytesh ");
      bytes_hex(s, value);
      s.push(')');
    }
    Type2::B64ByteString { value, .. } => {
      s.push_str("(bytesb64 ");
      bytes_hex(s, value);
      s.push(')');
    }
    Type2::Typename { ident: i, generic_args, .. } => {
      s.push_str("(name ");
      ident(s, i);
      gargs(s, generic_args, o);
      s.push(')');
    }
    Type2::ParenthesizedType { pt, .. } => {
      s.push_str("(paren ");
      ty(s, pt, o);
      s.push(')');
    }
    Type2::Map { group: g, .. } => {
      s.push_str("(map ");
      group(s, g, o);
      s.push(')');
    }
    Type2::Array { group: g, .. } => {
      s.push_str("(array ");
      group(s, g, o);
      s.push(')');
    }
    Type2::Unwrap { ident: i, generic_args, .. } => {
      s.push_str("(unwrap ");
      ident(s, i);
      gargs(s, generic_args, o);
      s.push(')');
    }
    Type2::ChoiceFromInlineGroup { group: g, .. } => {
      s.push_str("(&inline ");
      group(s, g, o);
      s.push(')');
    }
    Type2::ChoiceFromGroup { ident: i, generic_args, .. } => {
      s.push_str("(&name ");
      ident(s, i);
      gargs(s, generic_args, o);
      s.push(')');
    }
    Type2::TaggedData { tag, t, .. } => {
      s.push_str("(tag ");
      tagc(s, tag);
      s.push(' ');
      ty(s, t, o);
      s.push(')');
    }
    Type2::DataMajorType { mt, constraint, .. } => {
      let _ = write!(s, "(major {} ", mt);
      tagc(s, constraint);
      s.push(')');
    }
    Type2::Any { .. } => s.push_str("(any)"),
  }
}

pub fn group(s: &mut String, g: &Group, o: &Opt) {
  s.push_str("(G");
  for gc in &g.group_choices {
    s.push_str(" (GC");
    for (e, _) in &gc.group_entries {
      s.push(' ');
      entry(s, e, o);
    }
    s.push(')');
  }
  s.push(')');
}

fn occur(s: &mut String, oc: &Option<Occurrence>) {
  match oc.as_ref().map(|o| &o.occur) {
    None => {}
    Some(Occur::Exact { lower, upper, .. }) => {
      let _ = write!(
        s,
        "{{{}*{}}}",
        lower.map(|v| v.to_string()).unwrap_or_default(),
        upper.map(|v| v.to_string()).unwrap_or_default()
      );
    }
    Some(Occur::ZeroOrMore { .. }) => s.push_str("{*}"),
    Some(Occur::OneOrMore { .. }) => s.push_str("{+}"),
    Some(Occur::Optional { .. }) => s.push_str("{?}"),
  }
}

pub fn entry(s: &mut String, e: &GroupEntry, o: &Opt) {
  match e {
    GroupEntry::ValueMemberKey { ge, .. } => {
      // a key-less entry whose type is a bare (generic) name is the same text as a
      // group-name entry
      if o.normalize_bare_names && ge.member_key.is_none() {
        if ge.entry_type.type_choices.len() == 1 && ge.entry_type.type_choices[0].type1.operator.is_none() {
          if let Type2::Typename { ident: i, generic_args, .. } = &ge.entry_type.type_choices[0].type1.type2 {
            s.push_str("(ref");
            occur(s, &ge.occur);
            s.push(' ');
            ident(s, i);
            gargs(s, generic_args, o);
            s.push(')');
            return;
          }
        }
      }
      s.push_str("(E");
      occur(s, &ge.occur);
      s.push(' ');
      match &ge.member_key {
        None => s.push('_'),
        Some(MemberKey::Type1 { t1, is_cut, .. }) => {
          s.push_str(if *is_cut { "(key^=> " } else { "(key=> " });
          type1(s, t1, o);
          s.push(')');
        }
        Some(MemberKey::Bareword { ident: i, .. }) => {
          s.push_str("(bare ");
          ident(s, i);
          s.push(')');
        }
        Some(MemberKey::Value { value: v, .. }) => {
          s.push_str("(val: ");
          value(s, v);
          s.push(')');
        }
        Some(MemberKey::NonMemberKey { non_member_key, .. }) => {
          s.push_str("(nonkey ");
          match non_member_key {
            NonMemberKey::Group(g) => group(s, g, o),
            NonMemberKey::Type(t) => ty(s, t, o),
          }
          s.push(')');
        }
      }
      s.push(' ');
      ty(s, &ge.entry_type, o);
      s.push(')');
    }
    GroupEntry::TypeGroupname { ge, .. } => {
      s.push_str(if o.normalize_bare_names { "(ref" } else { "(gref" });
      occur(s, &ge.occur);
      s.push(' ');
      ident(s, &ge.name);
      gargs(s, &ge.generic_args, o);
      s.push(')');
    }
    GroupEntry::InlineGroup { occur: oc, group: g, .. } => {
      s.push_str("(inline");
      occur(s, oc);
      s.push(' ');
      group(s, g, o);
      s.push(')');
    }
  }
}
