//! Reference semantics of the core CDDL fragment (RFC 8610 sections 2-3, Appendix D), written
//! for the harness: a type denotes a set of data items; `accepts` decides membership.
//!
//! * types: choice = union; literal = singleton of the same kind; prelude names per Appendix D;
//!   ranges and the comparison / .size / .eq / .ne / .and / .within controls;
//! * arrays: the PEG reading the crate documents (greedy occurrences without backtracking into a
//!   completed repetition, `//` commits to the first alternative that matches at the cursor, the
//!   whole array must be consumed);
//! * maps: declarative - there must be an assignment of *every* pair to an entry occurrence of one
//!   alternative such that key and value match, occurrence bounds hold, and no pair whose key
//!   matches an earlier entry carrying a cut is assigned to a later entry.
//!
//! Anything outside the fragment yields `Unsupported` (never a guess).
use crate::cbor::CVal;
use crate::cmodel::*;
use std::cell::Cell;

#[derive(Clone, Copy, Debug, PartialEq, Eq)]
pub enum Verdict {
  Accept,
  Reject,
  Unsupported(&'static str),
}

type R<T> = Result<T, &'static str>;

#[derive(Clone, Copy, Default)]
pub struct SemOpts {
  /// JSON reading B: an integral JSON number is both an int and a float
  pub int_is_also_float: bool,
  /// JSON mode: record (taint) every decision that depends on whether an integral number is an int or a float
  pub json: bool,
  /// ignore cuts in maps (used where only 'every pair is accounted for by some member' is asserted)
  pub ignore_cuts: bool,
}

pub struct Sem<'s> {
  pub schema: &'s Schema,
  pub opts: SemOpts,
  fuel: Cell<u64>,
  /// bit set of constructs the evaluation went through (TR_*)
  pub trace: Cell<u32>,
  /// an integer value met a float-kind construct (the property leaves that decision open for JSON)
  pub taint: Cell<bool>,
}

pub const TR_ARRAY: u32 = 1;
pub const TR_MAP: u32 = 2;
pub const TR_CHOICE: u32 = 4;
pub const TR_OCCUR: u32 = 8;
pub const TR_GROUP_CHOICE: u32 = 16;
pub const TR_INLINE: u32 = 32;
pub const TR_GROUP_REF: u32 = 64;
pub const TR_RULE_REF: u32 = 128;
pub const TR_CTL: u32 = 256;
pub const TR_RANGE: u32 = 512;
pub const TR_CUT: u32 = 1024;
pub const TR_TABLE: u32 = 2048;
pub const TR_OPT_MEMBER: u32 = 4096;
pub const TR_TAG: u32 = 8192;
pub const TR_MAJOR: u32 = 16384;
pub const TR_BYTES: u32 = 32768;
pub const TR_NONTEXT_KEY: u32 = 65536;
pub const TR_GENERIC: u32 = 1 << 17;

pub fn trace_names(t: u32) -> Vec<&'static str> {
  let names = [
    "array", "map", "choice", "occurrence", "group-choice", "inline-group", "group-ref", "rule-ref", "control", "range", "cut",
    "table", "optional-member", "tag", "major-type", "bytes", "non-text-key", "generic",
  ];
  names.iter().enumerate().filter(|(i, _)| t & (1 << i) != 0).map(|(_, n)| *n).collect()
}

pub const PRELUDE_CORE: &[&str] = &[
  "any", "uint", "nint", "int", "bstr", "bytes", "tstr", "text", "bool", "true", "false", "nil", "null", "undefined", "float",
  "number",
];

enum Res<'s> {
  Prelude(&'static str),
  /// all definitions (`=` and `/=`) of a type rule, in document order
  TypeRule(Vec<&'s RuleM>),
  GroupRule(Vec<&'s RuleM>),
  Param(&'s Ty1, usize),
  Undefined,
}

/// generic-parameter environment: stack of (param name -> argument, env index the argument is evaluated in)
#[derive(Clone)]
struct Frame<'s> {
  names: &'s [String],
  args: &'s [Ty1],
  parent: usize,
}

struct Slot<'s> {
  key: &'s Key,
  ty: &'s Ty,
  min: u64,
  max: Option<u64>,
  env: usize,
}

pub struct Eval<'s, 'a> {
  sem: &'a Sem<'s>,
  frames: Vec<Frame<'s>>,
}

impl<'s> Sem<'s> {
  pub fn new(schema: &'s Schema, opts: SemOpts) -> Sem<'s> {
    Sem { schema, opts, fuel: Cell::new(0), trace: Cell::new(0), taint: Cell::new(false) }
  }

  /// Does the value belong to the first type rule of the schema?
  pub fn accepts(&self, v: &CVal) -> Verdict {
    self.fuel.set(2_000_000);
    self.trace.set(0);
    self.taint.set(false);
    let root = match self.schema.0.iter().find(|r| matches!(r.body, Body::Ty(_)) && r.params.is_empty()) {
      Some(r) => r,
      None => return Verdict::Unsupported("no non-generic type rule"),
    };
    let mut ev = Eval { sem: self, frames: vec![Frame { names: &[], args: &[], parent: 0 }] };
    match ev.named_type(&root.name, &[], 0, v) {
      Ok(true) => Verdict::Accept,
      Ok(false) => Verdict::Reject,
      Err(e) => Verdict::Unsupported(e),
    }
  }

  fn tr(&self, bit: u32) {
    self.trace.set(self.trace.get() | bit);
  }

  fn tick(&self) -> R<()> {
    let f = self.fuel.get();
    if f == 0 {
      return Err("fuel exhausted");
    }
    self.fuel.set(f - 1);
    Ok(())
  }
}

fn is_floaty(v: &CVal, o: &SemOpts) -> bool {
  matches!(v, CVal::Float(_)) || (o.int_is_also_float && matches!(v, CVal::Int(_)))
}

fn num_f64(v: &CVal) -> Option<f64> {
  match v {
    CVal::Float(b) => Some(f64::from_bits(*b)),
    CVal::Int(i) => Some(*i as f64),
    _ => None,
  }
}

fn lit_matches_t(l: &Lit, v: &CVal, sem: &Sem) -> bool {
  if let (Lit::Float { .. }, CVal::Int(_)) = (l, v) {
    sem.taint.set(true);
  }
  lit_matches(l, v, &sem.opts)
}

fn lit_matches(l: &Lit, v: &CVal, o: &SemOpts) -> bool {
  match (l, v) {
    (Lit::Int { v: a, .. }, CVal::Int(b)) => a == b,
    (Lit::Float { v: a, .. }, CVal::Float(b)) => *a == f64::from_bits(*b),
    (Lit::Float { v: a, .. }, CVal::Int(b)) => o.int_is_also_float && *a == *b as f64,
    (Lit::Text { v: a, .. }, CVal::Text(b)) => a == b,
    (Lit::Bytes { v: a, .. }, CVal::Bytes(b)) => a == b,
    _ => false,
  }
}

impl<'s, 'a> Eval<'s, 'a> {
  fn resolve(&self, name: &'s str, env: usize) -> Res<'s> {
    // generic parameter of the frame?
    let fr = &self.frames[env];
    if let Some(i) = fr.names.iter().position(|n| n == name) {
      if let Some(a) = fr.args.get(i) {
        return Res::Param(a, fr.parent);
      }
    }
    let defs: Vec<&'s RuleM> = self.sem.schema.0.iter().filter(|r| r.name == name).collect();
    if !defs.is_empty() {
      if defs.iter().all(|r| matches!(r.body, Body::Ty(_))) {
        return Res::TypeRule(defs);
      }
      if defs.iter().all(|r| matches!(r.body, Body::Grp(_))) {
        return Res::GroupRule(defs);
      }
      return Res::Undefined;
    }
    if let Some(p) = PRELUDE_CORE.iter().find(|p| **p == name) {
      return Res::Prelude(p);
    }
    Res::Undefined
  }

  fn push_frame(&mut self, rule: &'s RuleM, args: &'s [Ty1], env: usize) -> R<usize> {
    if rule.params.len() != args.len() {
      return Err("generic arity mismatch");
    }
    if rule.params.is_empty() {
      return Ok(0);
    }
    self.sem.tr(TR_GENERIC);
    self.frames.push(Frame { names: &rule.params, args, parent: env });
    Ok(self.frames.len() - 1)
  }

  fn named_type(&mut self, name: &'s str, args: &'s [Ty1], env: usize, v: &CVal) -> R<bool> {
    self.sem.tick()?;
    match self.resolve(name, env) {
      Res::Param(a, penv) => {
        if !args.is_empty() {
          return Err("generic parameter with arguments");
        }
        self.ty1(a, penv, v)
      }
      Res::Prelude(p) => {
        if !args.is_empty() {
          return Err("prelude name with arguments");
        }
        if p == "float" && matches!(v, CVal::Int(_)) {
          self.sem.taint.set(true);
        }
        Ok(prelude_matches(p, v, &self.sem.opts))
      }
      Res::TypeRule(defs) => {
        for r in defs {
          let depth = self.frames.len();
          let e2 = self.push_frame(r, args, env)?;
          let ok = match &r.body {
            Body::Ty(t) => self.ty(t, e2, v)?,
            _ => unreachable!(),
          };
          self.frames.truncate(depth);
          if ok {
            return Ok(true);
          }
        }
        Ok(false)
      }
      Res::GroupRule(_) => Err("group rule in type position"),
      Res::Undefined => Err("undefined or unsupported name"),
    }
  }

  pub fn ty(&mut self, t: &'s Ty, env: usize, v: &CVal) -> R<bool> {
    if t.0.len() > 1 {
      self.sem.tr(TR_CHOICE);
    }
    for t1 in &t.0 {
      if self.ty1(t1, env, v)? {
        return Ok(true);
      }
    }
    Ok(false)
  }

  /// literal denoted by a type2 (directly or through alias rules)
  fn lit_of(&self, t: &'s Ty2, env: usize, depth: usize) -> Option<&'s Lit> {
    if depth > 8 {
      return None;
    }
    match t {
      Ty2::Lit(l) => Some(l),
      Ty2::Paren(ty) if ty.0.len() == 1 && ty.0[0].op.is_none() => self.lit_of(&ty.0[0].t2, env, depth + 1),
      Ty2::Name { name, args } if args.is_empty() => match self.resolve(name, env) {
        Res::TypeRule(defs) if defs.len() == 1 && defs[0].params.is_empty() => match &defs[0].body {
          Body::Ty(ty) if ty.0.len() == 1 && ty.0[0].op.is_none() => self.lit_of(&ty.0[0].t2, 0, depth + 1),
          _ => None,
        },
        Res::Param(a, penv) if a.op.is_none() => self.lit_of(&a.t2, penv, depth + 1),
        _ => None,
      },
      _ => None,
    }
  }

  fn ty1(&mut self, t: &'s Ty1, env: usize, v: &CVal) -> R<bool> {
    self.sem.tick()?;
    let (op, rhs) = match &t.op {
      None => return self.ty2(&t.t2, env, v),
      Some(x) => x,
    };
    let o = self.sem.opts;
    match op {
      Op::Range { inclusive } => {
        self.sem.tr(TR_RANGE);
        let l = self.lit_of(&t.t2, env, 0).ok_or("range bound is not a literal")?;
        let u = self.lit_of(rhs, env, 0).ok_or("range bound is not a literal")?;
        match (l, u) {
          (Lit::Int { v: l, .. }, Lit::Int { v: u, .. }) => Ok(match v {
            CVal::Int(x) => *l <= *x && (if *inclusive { *x <= *u } else { *x < *u }),
            _ => false,
          }),
          (Lit::Float { v: l, .. }, Lit::Float { v: u, .. }) => {
            if matches!(v, CVal::Int(_)) {
              self.sem.taint.set(true);
            }
            if !is_floaty(v, &o) {
              return Ok(false);
            }
            let x = num_f64(v).unwrap();
            Ok(*l <= x && (if *inclusive { x <= *u } else { x < *u }))
          }
          _ => Err("range with mixed or non-numeric bounds"),
        }
      }
      Op::Ctl(name) => {
        self.sem.tr(TR_CTL);
        match name.as_str() {
          "and" | "within" => Ok(self.ty2(&t.t2, env, v)? && self.ty2(rhs, env, v)?),
          "default" => self.ty2(&t.t2, env, v),
          "size" => {
            if !self.ty2(&t.t2, env, v)? {
              return Ok(false);
            }
            // the controller: uint literal, or a (parenthesised) range of uints
            let (lo, hi): (i128, i128) = match self.size_bounds(rhs, env)? {
              Some(b) => b,
              None => return Err("unsupported .size controller"),
            };
            match v {
              CVal::Text(s) => Ok(lo <= s.len() as i128 && s.len() as i128 <= hi),
              CVal::Bytes(b) => Ok(lo <= b.len() as i128 && b.len() as i128 <= hi),
              CVal::Int(x) if *x >= 0 => {
                // uint .size n: representable in n bytes; a range controller bounds the byte count
                let need = {
                  let mut n = 0i128;
                  let mut y = *x;
                  while y > 0 {
                    n += 1;
                    y >>= 8;
                  }
                  n
                };
                if lo == hi {
                  Ok(need <= hi)
                } else {
                  Err(".size range on an integer target")
                }
              }
              _ => Err(".size on a target that is neither text, bytes nor uint"),
            }
          }
          "lt" | "le" | "gt" | "ge" => {
            if !self.ty2(&t.t2, env, v)? {
              return Ok(false);
            }
            let c = self.lit_of(rhs, env, 0).ok_or("comparison controller is not a literal")?;
            let ord = match (v, c) {
              (CVal::Int(x), Lit::Int { v: y, .. }) => x.cmp(y),
              (CVal::Float(x), Lit::Float { v: y, .. }) => match f64::from_bits(*x).partial_cmp(y) {
                Some(o) => o,
                None => return Ok(false),
              },
              (CVal::Int(_), Lit::Float { .. }) | (CVal::Float(_), Lit::Int { .. }) => {
                self.sem.taint.set(true);
                return Err("comparison between integer and float")
              }
              _ => return Err("comparison control on a non-numeric value"),
            };
            use std::cmp::Ordering::*;
            Ok(match name.as_str() {
              "lt" => ord == Less,
              "le" => ord != Greater,
              "gt" => ord == Greater,
              _ => ord != Less,
            })
          }
          "eq" | "ne" => {
            if !self.ty2(&t.t2, env, v)? {
              return Ok(false);
            }
            let c = self.lit_of(rhs, env, 0).ok_or(".eq/.ne controller is not a literal")?;
            if let (CVal::Int(_), Lit::Float { .. }) | (CVal::Float(_), Lit::Int { .. }) = (v, c) {
              return Err("equality between integer and float");
            }
            let eq = lit_matches(c, v, &SemOpts::default());
            Ok(if name == "eq" { eq } else { !eq })
          }
          _ => Err("control operator outside the reference fragment"),
        }
      }
    }
  }

  /// (lo, hi) byte-count bounds denoted by a .size controller
  fn size_bounds(&self, rhs: &'s Ty2, env: usize) -> R<Option<(i128, i128)>> {
    if let Some(Lit::Int { v, .. }) = self.lit_of(rhs, env, 0) {
      if *v >= 0 {
        return Ok(Some((*v, *v)));
      }
      return Ok(None);
    }
    // (l..u) / (l...u), possibly through an alias rule
    let t1: Option<&'s Ty1> = match rhs {
      Ty2::Paren(ty) if ty.0.len() == 1 => Some(&ty.0[0]),
      Ty2::Name { name, args } if args.is_empty() => match self.resolve(name, env) {
        Res::TypeRule(defs) if defs.len() == 1 && defs[0].params.is_empty() => match &defs[0].body {
          Body::Ty(ty) if ty.0.len() == 1 => Some(&ty.0[0]),
          _ => None,
        },
        _ => None,
      },
      _ => None,
    };
    if let Some(Ty1 { t2, op: Some((Op::Range { inclusive }, u)) }) = t1 {
      if let (Some(Lit::Int { v: l, .. }), Some(Lit::Int { v: u, .. })) = (self.lit_of(t2, env, 0), self.lit_of(u, env, 0)) {
        if *l >= 0 {
          return Ok(Some((*l, if *inclusive { *u } else { *u - 1 })));
        }
      }
    }
    Ok(None)
  }

  fn ty2(&mut self, t: &'s Ty2, env: usize, v: &CVal) -> R<bool> {
    self.sem.tick()?;
    let o = self.sem.opts;
    match t {
      Ty2::Lit(l) => {
        if matches!(l, Lit::Bytes { .. }) {
          self.sem.tr(TR_BYTES);
        }
        Ok(lit_matches_t(l, v, self.sem))
      }
      Ty2::Name { name, args } => {
        if !matches!(self.resolve(name, env), Res::Prelude(_)) {
          self.sem.tr(TR_RULE_REF);
        }
        self.named_type(name, args, env, v)
      }
      Ty2::Paren(t) => self.ty(t, env, v),
      Ty2::Any => Ok(true),
      Ty2::Arr(g) => match v {
        CVal::Array(items) => {
          self.sem.tr(TR_ARRAY);
          match self.seq_group(g, env, items, 0)? {
            Some(end) => Ok(end == items.len()),
            None => Ok(false),
          }
        }
        _ => Ok(false),
      },
      Ty2::Map(g) => match v {
        CVal::Map(pairs) => {
          self.sem.tr(TR_MAP);
          self.map_match(g, env, pairs)
        }
        _ => Ok(false),
      },
      Ty2::Tag { num, ty } => {
        self.sem.tr(TR_TAG);
        match v {
          CVal::Tag(n, inner) => {
            match num {
              None => {}
              Some(TagNum::Lit(k, _)) => {
                if k != n {
                  return Ok(false);
                }
              }
              Some(TagNum::Ty(_)) => return Err("non-literal tag number"),
            }
            self.ty(ty, env, inner)
          }
          _ => Ok(false),
        }
      }
      Ty2::Major { mt, num } => {
        self.sem.tr(TR_MAJOR);
        let n = match num {
          None => None,
          Some(TagNum::Lit(k, _)) => Some(*k),
          Some(TagNum::Ty(_)) => return Err("non-literal head number"),
        };
        match (mt, n) {
          (0, None) => Ok(matches!(v, CVal::Int(x) if *x >= 0)),
          (1, None) => Ok(matches!(v, CVal::Int(x) if *x < 0)),
          (2, None) => Ok(matches!(v, CVal::Bytes(_))),
          (3, None) => Ok(matches!(v, CVal::Text(_))),
          (4, None) => Ok(matches!(v, CVal::Array(_))),
          (5, None) => Ok(matches!(v, CVal::Map(_))),
          (6, None) => Ok(matches!(v, CVal::Tag(..))),
          (6, Some(k)) => Ok(matches!(v, CVal::Tag(t, _) if *t == k)),
          (7, None) => Ok(matches!(v, CVal::Simple(_) | CVal::Float(_))),
          (7, Some(k)) if k <= 23 || (32..=255).contains(&k) => Ok(matches!(v, CVal::Simple(s) if *s as u64 == k)),
          _ => Err("major type with additional information outside the fragment"),
        }
      }
      Ty2::Unwrap { .. } => Err("unwrap outside the reference fragment"),
      Ty2::ChoiceInline(_) | Ty2::ChoiceName { .. } => Err("group-to-choice outside the reference fragment"),
    }
  }

  // ----------------------------------------------------------------------------------
  // arrays: PEG sequence matching
  // ----------------------------------------------------------------------------------

  fn seq_group(&mut self, g: &'s Grp, env: usize, items: &[CVal], cur: usize) -> R<Option<usize>> {
    if g.0.len() > 1 {
      self.sem.tr(TR_GROUP_CHOICE);
    }
    for gc in &g.0 {
      if let Some(e) = self.seq_choice(gc, env, items, cur)? {
        return Ok(Some(e));
      }
    }
    Ok(None)
  }

  fn seq_choice(&mut self, gc: &'s [Ent], env: usize, items: &[CVal], cur: usize) -> R<Option<usize>> {
    let mut c = cur;
    for e in gc {
      match self.seq_entry(e, env, items, c)? {
        Some(n) => c = n,
        None => return Ok(None),
      }
    }
    Ok(Some(c))
  }

  fn seq_entry(&mut self, e: &'s Ent, env: usize, items: &[CVal], cur: usize) -> R<Option<usize>> {
    self.sem.tick()?;
    let (min, max) = occ_bounds(&e.occ);
    if e.occ.is_some() {
      self.sem.tr(TR_OCCUR);
    }
    let mut c = cur;
    let mut count = 0u64;
    while max.map(|m| count < m).unwrap_or(true) {
      match self.seq_once(e, env, items, c)? {
        Some(n) => {
          count += 1;
          if n == c {
            count = count.max(min);
            break;
          }
          c = n;
        }
        None => break,
      }
    }
    Ok(if count >= min { Some(c) } else { None })
  }

  fn seq_once(&mut self, e: &'s Ent, env: usize, items: &[CVal], cur: usize) -> R<Option<usize>> {
    match &e.kind {
      EntKind::Inline(g) => {
        self.sem.tr(TR_INLINE);
        self.seq_group(g, env, items, cur)
      }
      EntKind::Ref { name, args } => self.seq_name(name, args, env, items, cur),
      EntKind::Val { key: None, ty } if ty.0.len() == 1 && ty.0[0].op.is_none() && matches!(ty.0[0].t2, Ty2::Name { .. }) => {
        if let Ty2::Name { name, args } = &ty.0[0].t2 {
          self.seq_name(name, args, env, items, cur)
        } else {
          unreachable!()
        }
      }
      EntKind::Val { ty, .. } => {
        // member keys are annotations in an array context
        if cur < items.len() && self.ty(ty, env, &items[cur])? {
          Ok(Some(cur + 1))
        } else {
          Ok(None)
        }
      }
    }
  }

  fn seq_name(&mut self, name: &'s str, args: &'s [Ty1], env: usize, items: &[CVal], cur: usize) -> R<Option<usize>> {
    match self.resolve(name, env) {
      Res::GroupRule(defs) => {
        self.sem.tr(TR_GROUP_REF);
        if defs.len() > 1 {
          self.sem.tr(TR_GROUP_CHOICE);
        }
        for r in defs {
          let depth = self.frames.len();
          let e2 = self.push_frame(r, args, env)?;
          let res = match &r.body {
            Body::Grp(ent) => self.seq_entry(ent, e2, items, cur)?,
            _ => unreachable!(),
          };
          self.frames.truncate(depth);
          if res.is_some() {
            return Ok(res);
          }
        }
        Ok(None)
      }
      Res::Param(a, penv) => {
        // a parameter bound to a group name is outside the fragment; as a type it is a leaf
        if cur < items.len() && self.ty1(a, penv, &items[cur])? {
          Ok(Some(cur + 1))
        } else {
          Ok(None)
        }
      }
      _ => {
        if cur < items.len() && self.named_type(name, args, env, &items[cur])? {
          Ok(Some(cur + 1))
        } else {
          Ok(None)
        }
      }
    }
  }

  // ----------------------------------------------------------------------------------
  // maps: declarative assignment search
  // ----------------------------------------------------------------------------------

  fn flat_group(&mut self, g: &'s Grp, env: usize, depth: usize) -> R<Vec<Vec<Slot<'s>>>> {
    if depth > 6 {
      return Err("map group nesting too deep for the reference matcher");
    }
    if g.0.len() > 1 {
      self.sem.tr(TR_GROUP_CHOICE);
    }
    let mut out = vec![];
    for gc in &g.0 {
      out.extend(self.flat_choice(gc, env, depth)?);
      if out.len() > 64 {
        return Err("too many map alternatives for the reference matcher");
      }
    }
    Ok(out)
  }

  fn flat_choice(&mut self, gc: &'s [Ent], env: usize, depth: usize) -> R<Vec<Vec<Slot<'s>>>> {
    let mut acc: Vec<Vec<Slot<'s>>> = vec![vec![]];
    for e in gc {
      let alts = self.flat_entry(e, env, depth)?;
      let mut next = vec![];
      for a in &acc {
        for b in &alts {
          let mut v: Vec<Slot<'s>> = a.iter().map(slot_clone).collect();
          v.extend(b.iter().map(slot_clone));
          next.push(v);
        }
      }
      if next.len() > 64 {
        return Err("too many map alternatives for the reference matcher");
      }
      acc = next;
    }
    Ok(acc)
  }

  fn flat_entry(&mut self, e: &'s Ent, env: usize, depth: usize) -> R<Vec<Vec<Slot<'s>>>> {
    self.sem.tick()?;
    let (min, max) = occ_bounds(&e.occ);
    let inner: Vec<Vec<Slot<'s>>> = match &e.kind {
      EntKind::Val { key: Some(k), ty } => {
        if e.occ.is_some() {
          self.sem.tr(if max == Some(1) && min == 0 { TR_OPT_MEMBER } else { TR_OCCUR });
        }
        if matches!(k, Key::Arrow { cut: true, .. } | Key::Bare(_) | Key::Val(_)) {
          self.sem.tr(TR_CUT);
        }
        if let Key::Arrow { t1, .. } = k {
          if !(t1.op.is_none() && matches!(t1.t2, Ty2::Lit(_))) {
            self.sem.tr(TR_TABLE);
          }
        }
        return Ok(vec![vec![Slot { key: k, ty, min, max, env }]]);
      }
      EntKind::Inline(g) => {
        self.sem.tr(TR_INLINE);
        self.flat_group(g, env, depth + 1)?
      }
      EntKind::Ref { name, args } => self.flat_name(name, args, env, depth)?,
      EntKind::Val { key: None, ty } => {
        if ty.0.len() == 1 && ty.0[0].op.is_none() {
          if let Ty2::Name { name, args } = &ty.0[0].t2 {
            self.flat_name(name, args, env, depth)?
          } else {
            return Err("key-less non-group entry in a map");
          }
        } else {
          return Err("key-less non-group entry in a map");
        }
      }
    };
    // occurrence on a nested group
    match (min, max) {
      (1, Some(1)) => Ok(inner),
      (0, Some(1)) => {
        self.sem.tr(TR_OCCUR);
        let mut v = inner;
        v.push(vec![]);
        Ok(v)
      }
      _ => {
        // a repeated single-slot group is the slot with multiplied bounds
        if inner.len() == 1 && inner[0].len() == 1 && inner[0][0].min == 1 && inner[0][0].max == Some(1) {
          self.sem.tr(TR_OCCUR);
          let s = &inner[0][0];
          Ok(vec![vec![Slot { key: s.key, ty: s.ty, min, max, env: s.env }]])
        } else {
          Err("repeated multi-entry group in a map")
        }
      }
    }
  }

  fn flat_name(&mut self, name: &'s str, args: &'s [Ty1], env: usize, depth: usize) -> R<Vec<Vec<Slot<'s>>>> {
    match self.resolve(name, env) {
      Res::GroupRule(defs) => {
        self.sem.tr(TR_GROUP_REF);
        if defs.len() > 1 {
          self.sem.tr(TR_GROUP_CHOICE);
        }
        let mut out = vec![];
        for r in defs {
          // frames pushed here stay alive: slots refer to them by index
          let e2 = self.push_frame(r, args, env)?;
          match &r.body {
            Body::Grp(ent) => out.extend(self.flat_entry(ent, e2, depth + 1)?),
            _ => unreachable!(),
          }
        }
        Ok(out)
      }
      _ => Err("key-less non-group entry in a map"),
    }
  }

  fn key_matches(&mut self, s: &Slot<'s>, k: &CVal) -> R<bool> {
    match s.key {
      Key::Bare(b) => Ok(matches!(k, CVal::Text(t) if t == b)),
      Key::Val(l) => Ok(lit_matches_t(l, k, self.sem)),
      Key::Arrow { t1, .. } => self.ty1(t1, s.env, k),
    }
  }

  fn map_match(&mut self, g: &'s Grp, env: usize, pairs: &[(CVal, CVal)]) -> R<bool> {
    if pairs.len() > 8 {
      return Err("map too large for the reference matcher");
    }
    let depth = self.frames.len();
    let alts = self.flat_group(g, env, 0)?;
    let mut result = false;
    'alt: for slots in &alts {
      if slots.len() > 10 {
        self.frames.truncate(depth);
        return Err("too many map slots for the reference matcher");
      }
      // candidate slots per pair (key + value match, cut rule)
      let mut cand: Vec<Vec<usize>> = vec![];
      for (k, v) in pairs {
        if !matches!(k, CVal::Text(_)) {
          self.sem.tr(TR_NONTEXT_KEY);
        }
        let mut c = vec![];
        let mut cut_seen = false;
        for (j, s) in slots.iter().enumerate() {
          let km = self.key_matches(s, k)?;
          if km && !cut_seen && self.ty(s.ty, s.env, v)? {
            c.push(j);
          }
          if km && !self.sem.opts.ignore_cuts && matches!(s.key, Key::Bare(_) | Key::Val(_) | Key::Arrow { cut: true, .. }) {
            cut_seen = true;
          }
        }
        if c.is_empty() {
          continue 'alt;
        }
        cand.push(c);
      }
      let mut counts = vec![0u64; slots.len()];
      if assign(0, &cand, slots, &mut counts) {
        result = true;
        break;
      }
    }
    self.frames.truncate(depth);
    Ok(result)
  }
}

fn slot_clone<'s>(s: &Slot<'s>) -> Slot<'s> {
  Slot { key: s.key, ty: s.ty, min: s.min, max: s.max, env: s.env }
}

fn assign(i: usize, cand: &[Vec<usize>], slots: &[Slot], counts: &mut Vec<u64>) -> bool {
  if i == cand.len() {
    return slots.iter().zip(counts.iter()).all(|(s, c)| *c >= s.min);
  }
  for &j in &cand[i] {
    if slots[j].max.map(|m| counts[j] < m).unwrap_or(true) {
      counts[j] += 1;
      if assign(i + 1, cand, slots, counts) {
        counts[j] -= 1;
        return true;
      }
      counts[j] -= 1;
    }
  }
  false
}

pub fn occ_bounds(o: &Option<Occ>) -> (u64, Option<u64>) {
  match o {
    None => (1, Some(1)),
    Some(Occ::Opt) => (0, Some(1)),
    Some(Occ::Star) => (0, None),
    Some(Occ::Plus) => (1, None),
    Some(Occ::Range(l, u)) => (l.unwrap_or(0), *u),
  }
}

pub fn prelude_matches(p: &str, v: &CVal, o: &SemOpts) -> bool {
  match p {
    "any" => true,
    "uint" => matches!(v, CVal::Int(x) if *x >= 0),
    "nint" => matches!(v, CVal::Int(x) if *x < 0),
    "int" => matches!(v, CVal::Int(_)),
    "bstr" | "bytes" => matches!(v, CVal::Bytes(_)),
    "tstr" | "text" => matches!(v, CVal::Text(_)),
    "bool" => matches!(v, CVal::Simple(20) | CVal::Simple(21)),
    "true" => matches!(v, CVal::Simple(21)),
    "false" => matches!(v, CVal::Simple(20)),
    "nil" | "null" => matches!(v, CVal::Simple(22)),
    "undefined" => matches!(v, CVal::Simple(23)),
    "float" => is_floaty(v, o),
    "number" => matches!(v, CVal::Int(_) | CVal::Float(_)),
    _ => false,
  }
}

/// JSON reading: integral JSON numbers are integers; when the evaluation had to decide whether such a
/// number is (also) a float - which the property leaves open - the verdict is None (ambiguous).
pub fn accepts_json(schema: &Schema, v: &CVal) -> (Option<Verdict>, u32) {
  let a = Sem::new(schema, SemOpts { int_is_also_float: false, json: true, ignore_cuts: false });
  let va = a.accepts(v);
  let tr = a.trace.get();
  if a.taint.get() {
    return (None, tr);
  }
  (Some(va), tr)
}
