//! Choice-tape generation driven by proptest.
//!
//! Every generator in this harness is a plain function that draws its decisions from a
//! `Tape` (a `Vec<u32>` produced by a proptest strategy).  proptest owns the randomness
//! (ChaCha, fixed seed derived from VERIF_SEED) and the shrinking: it deletes and lowers
//! tape cells, and because every draw maps a cell monotonically to an alternative index
//! (`cell * n >> 32`, exhausted tape = 0) shrinking moves cases towards the first / simplest
//! alternative and towards shorter structures.
use crate::ctx::Ctx;
use proptest::collection::vec as pvec;
use proptest::prelude::*;
use proptest::test_runner::{Config, RngAlgorithm, RngSeed, TestCaseError, TestError, TestRunner};
use serde_json::{json, Value as J};
use std::collections::{BTreeMap, HashSet};
use std::hash::{Hash, Hasher};
use std::sync::atomic::{AtomicBool, Ordering};
use std::sync::Mutex;

pub struct Tape<'a> {
  data: &'a [u32],
  pos: usize,
}

impl<'a> Tape<'a> {
  pub fn new(data: &'a [u32]) -> Tape<'a> {
    Tape { data, pos: 0 }
  }
  pub fn raw(&mut self) -> u32 {
    let v = self.data.get(self.pos).copied().unwrap_or(0);
    self.pos += 1;
    v
  }
  pub fn exhausted(&self) -> bool {
    self.pos >= self.data.len()
  }
  pub fn remaining(&self) -> usize {
    self.data.len().saturating_sub(self.pos)
  }
  /// uniform in 0..n, monotone in the cell value
  pub fn below(&mut self, n: usize) -> usize {
    if n <= 1 {
      // still consume a cell so that the tape layout is stable
      let _ = self.raw();
      return 0;
    }
    ((self.raw() as u64 * n as u64) >> 32) as usize
  }
  pub fn flag(&mut self) -> bool {
    self.below(2) == 1
  }
  /// true with probability num/den; an exhausted tape yields false
  pub fn chance(&mut self, num: usize, den: usize) -> bool {
    self.below(den) >= den - num
  }
  pub fn pick<'b, T>(&mut self, xs: &'b [T]) -> &'b T {
    &xs[self.below(xs.len())]
  }
  /// index chosen proportionally to `w`; monotone (cell 0 -> first non-zero weight)
  pub fn weighted(&mut self, w: &[u32]) -> usize {
    let total: u64 = w.iter().map(|x| *x as u64).sum();
    if total == 0 {
      let _ = self.raw();
      return 0;
    }
    let mut r = (self.raw() as u64 * total) >> 32;
    for (i, x) in w.iter().enumerate() {
      if r < *x as u64 {
        return i;
      }
      r -= *x as u64;
    }
    w.len() - 1
  }
  /// inclusive range, monotone from lo
  pub fn range(&mut self, lo: i64, hi: i64) -> i64 {
    debug_assert!(lo <= hi);
    lo + self.below((hi - lo + 1) as usize) as i64
  }
  pub fn u64_full(&mut self) -> u64 {
    ((self.raw() as u64) << 32) | self.raw() as u64
  }
}

#[derive(Debug)]
pub struct Fail {
  pub msg: String,
  pub replay: J,
}

impl Fail {
  pub fn new(msg: impl Into<String>, replay: J) -> Fail {
    Fail { msg: msg.into(), replay }
  }
}

const SAMPLE_CAP: usize = 10;

#[derive(Default, Debug)]
pub struct Stats {
  pub evals: u64,
  pub nontrivial: HashSet<u64>,
  /// non-trivial cases that are distinct by construction (exhaustive enumerations): counted, not hashed
  pub nontrivial_enum: u64,
  pub counters: BTreeMap<String, u64>,
  pub excluded: BTreeMap<String, u64>,
  pub crash: BTreeMap<String, u64>,
  /// (hash, sample): the SAMPLE_CAP samples with the smallest hashes are kept, so the
  /// selection is deterministic and not biased to the first cases generated
  pub samples: Vec<(u64, J)>,
  pub frozen: bool,
}

pub fn hash_of<T: Hash + ?Sized>(t: &T) -> u64 {
  let mut h = std::collections::hash_map::DefaultHasher::new();
  t.hash(&mut h);
  h.finish()
}

impl Stats {
  pub fn eval(&mut self) {
    if !self.frozen {
      self.evals += 1;
    }
  }
  pub fn evals_n(&mut self, n: u64) {
    if !self.frozen {
      self.evals += n;
    }
  }
  pub fn count(&mut self, k: &str) {
    if !self.frozen {
      *self.counters.entry(k.to_string()).or_insert(0) += 1;
    }
  }
  pub fn count_n(&mut self, k: &str, n: u64) {
    if !self.frozen {
      *self.counters.entry(k.to_string()).or_insert(0) += n;
    }
  }
  pub fn exclude(&mut self, k: &str) {
    if !self.frozen {
      *self.excluded.entry(k.to_string()).or_insert(0) += 1;
    }
  }
  pub fn crash(&mut self, k: &str) {
    if !self.frozen {
      *self.crash.entry(k.to_string()).or_insert(0) += 1;
    }
  }
  /// Count a non-trivial case of an enumeration (distinct by construction).
  pub fn nontrivial_enumerated(&mut self) {
    if !self.frozen {
      self.nontrivial_enum += 1;
    }
  }
  pub fn nontrivial_total(&self) -> u64 {
    self.nontrivial.len() as u64 + self.nontrivial_enum
  }
  /// Register a non-trivial case by its identity; returns true when it is new.
  pub fn nontrivial<T: Hash + ?Sized>(&mut self, key: &T) -> bool {
    if self.frozen {
      return false;
    }
    self.nontrivial.insert(hash_of(key))
  }
  pub fn sample<T: Hash + ?Sized>(&mut self, key: &T, f: impl FnOnce() -> J) {
    if self.frozen {
      return;
    }
    let h = hash_of(key);
    if self.samples.len() >= SAMPLE_CAP && self.samples.last().map(|s| s.0 <= h).unwrap_or(false) {
      return;
    }
    if self.samples.iter().any(|s| s.0 == h) {
      return;
    }
    self.samples.push((h, f()));
    self.samples.sort_by_key(|s| s.0);
    self.samples.truncate(SAMPLE_CAP);
  }
  pub fn merge(&mut self, o: Stats) {
    self.evals += o.evals;
    self.nontrivial.extend(o.nontrivial);
    self.nontrivial_enum += o.nontrivial_enum;
    for (k, v) in o.counters {
      *self.counters.entry(k).or_insert(0) += v;
    }
    for (k, v) in o.excluded {
      *self.excluded.entry(k).or_insert(0) += v;
    }
    for (k, v) in o.crash {
      *self.crash.entry(k).or_insert(0) += v;
    }
    for s in o.samples {
      if !self.samples.iter().any(|x| x.0 == s.0) {
        self.samples.push(s);
      }
    }
    self.samples.sort_by_key(|s| s.0);
    self.samples.truncate(SAMPLE_CAP);
  }
  pub fn counter(&self, k: &str) -> u64 {
    self.counters.get(k).copied().unwrap_or(0)
  }
}

fn derive_seed(seed: u64, prop: &str, name: &str, tid: usize) -> [u8; 32] {
  let mut out = [0u8; 32];
  for i in 0..4u64 {
    // FNV-1a based mixing; independent of std's randomised hasher
    let mut h: u64 = 0xcbf29ce484222325 ^ i.wrapping_mul(0x9e3779b97f4a7c15);
    let mut feed = |b: u8| {
      h ^= b as u64;
      h = h.wrapping_mul(0x100000001b3);
    };
    for b in seed.to_le_bytes() {
      feed(b);
    }
    for b in prop.bytes() {
      feed(b);
    }
    feed(0xff);
    for b in name.bytes() {
      feed(b);
    }
    feed(0xfe);
    for b in (tid as u64).to_le_bytes() {
      feed(b);
    }
    h ^= h >> 29;
    h = h.wrapping_mul(0xbf58476d1ce4e5b9);
    h ^= h >> 32;
    out[i as usize * 8..i as usize * 8 + 8].copy_from_slice(&h.to_le_bytes());
  }
  out
}

/// Run `cases` generated cases of sub-check `name` over `ctx.threads` proptest runners.
/// The closure generates a case from the tape, evaluates it and returns `Err(Fail)` on a
/// violation.  The first failure is shrunk by proptest, written as a replay file and
/// reported as a VIOLATION.  Returns true when no violation was found.
pub fn search<F>(ctx: &Ctx, name: &str, cases: u64, tape_len: usize, f: F) -> bool
where
  F: Fn(&mut Tape, &mut Stats) -> Result<(), Fail> + Sync,
{
  let threads = ctx.threads.max(1).min(cases.max(1) as usize);
  let per = (cases + threads as u64 - 1) / threads as u64;
  let stop = AtomicBool::new(false);
  let merged = Mutex::new(Stats::default());
  let failure: Mutex<Option<(Vec<u32>, String)>> = Mutex::new(None);
  let harness_panic: Mutex<Option<String>> = Mutex::new(None);
  let t0 = std::time::Instant::now();

  std::thread::scope(|scope| {
    for tid in 0..threads {
      let stop = &stop;
      let merged = &merged;
      let failure = &failure;
      let harness_panic = &harness_panic;
      let f = &f;
      let seed = derive_seed(ctx.seed, &ctx.prop, name, tid);
      std::thread::Builder::new()
        .stack_size(512 << 20)
        .spawn_scoped(scope, move || {
          let cfg = Config {
            cases: per as u32,
            failure_persistence: None,
            max_shrink_iters: std::env::var("VERIF_MAX_SHRINK").ok().and_then(|v| v.parse().ok()).unwrap_or(3000),
            rng_algorithm: RngAlgorithm::ChaCha,
            rng_seed: RngSeed::Fixed(u64::from_le_bytes(seed[0..8].try_into().unwrap())),
            max_global_rejects: u32::MAX,
            max_local_rejects: u32::MAX,
            verbose: 0,
            ..Config::default()
          };
          let mut runner = TestRunner::new(cfg);
          let strat = pvec(any::<u32>(), (tape_len / 8)..=tape_len);
          let st = std::cell::RefCell::new(Stats::default());
          let res = runner.run(&strat, |tape_v| {
            if stop.load(Ordering::Relaxed) && !st.borrow().frozen {
              return Ok(());
            }
            let mut tape = Tape::new(&tape_v);
            let mut s = st.borrow_mut();
            let r = std::panic::catch_unwind(std::panic::AssertUnwindSafe(|| f(&mut tape, &mut s)));
            match r {
              Ok(Ok(())) => Ok(()),
              Ok(Err(fail)) => {
                s.frozen = true;
                Err(TestCaseError::fail(fail.msg))
              }
              Err(_) => {
                let loc = crate::calls::last_panic();
                *harness_panic.lock().unwrap() = Some(loc);
                stop.store(true, Ordering::Relaxed);
                Ok(())
              }
            }
          });
          if let Err(TestError::Fail(reason, tape_v)) = res {
            stop.store(true, Ordering::Relaxed);
            let mut fl = failure.lock().unwrap();
            if fl.is_none() {
              *fl = Some((tape_v, reason.message().to_string()));
            }
          }
          merged.lock().unwrap().merge(st.into_inner());
        })
        .expect("spawn");
    }
  });

  let mut stats = merged.into_inner().unwrap();
  stats.frozen = false;
  let dt = t0.elapsed().as_secs_f64();
  if let Some(loc) = harness_panic.into_inner().unwrap() {
    ctx.set_inconclusive(&format!("harness panic in sub-check {} at {}", name, loc));
  }
  let mut ok = true;
  if let Some((tape_v, reason)) = failure.into_inner().unwrap() {
    ok = false;
    // re-run the shrunk tape once to obtain the self-contained replay description
    let mut scratch = Stats::default();
    let mut tape = Tape::new(&tape_v);
    let r = std::panic::catch_unwind(std::panic::AssertUnwindSafe(|| f(&mut tape, &mut scratch)));
    match r {
      Ok(Err(fail)) => {
        let mut rp = fail.replay;
        if let Some(o) = rp.as_object_mut() {
          o.insert("tape".into(), json!(tape_v));
        }
        ctx.violation(name, &fail.msg, rp);
      }
      _ => {
        // the shrunk case did not fail again: flaky -> inconclusive, never a violation
        ctx.set_inconclusive(&format!("failure of {} did not reproduce after shrinking: {}", name, reason));
      }
    }
  }
  ctx.note(&format!(
    "{}: {} evals, {} distinct non-trivial, {:.1}s{}",
    name,
    stats.evals,
    stats.nontrivial_total(),
    dt,
    if ok { "" } else { "  ** FAILED **" }
  ));
  ctx.add_part(name, stats);
  ok
}

/// Run a fixed list of cases (exhaustive scopes, fixture files) in parallel.
pub fn sweep<T, F>(ctx: &Ctx, name: &str, items: &[T], f: F) -> bool
where
  T: Sync,
  F: Fn(&T, &mut Stats) -> Result<(), Fail> + Sync,
{
  let threads = ctx.threads.max(1);
  let merged = Mutex::new(Stats::default());
  let failure: Mutex<Option<Fail>> = Mutex::new(None);
  let next = std::sync::atomic::AtomicUsize::new(0);
  let t0 = std::time::Instant::now();
  std::thread::scope(|scope| {
    for _ in 0..threads {
      let merged = &merged;
      let failure = &failure;
      let next = &next;
      let f = &f;
      std::thread::Builder::new()
        .stack_size(512 << 20)
        .spawn_scoped(scope, move || {
          let mut st = Stats::default();
          loop {
            let i = next.fetch_add(64, Ordering::Relaxed);
            if i >= items.len() || failure.lock().unwrap().is_some() {
              break;
            }
            for it in &items[i..(i + 64).min(items.len())] {
              match std::panic::catch_unwind(std::panic::AssertUnwindSafe(|| f(it, &mut st))) {
                Ok(Ok(())) => {}
                Ok(Err(fail)) => {
                  st.frozen = true;
                  let mut fl = failure.lock().unwrap();
                  if fl.is_none() {
                    *fl = Some(fail);
                  }
                  break;
                }
                Err(_) => {
                  let mut fl = failure.lock().unwrap();
                  if fl.is_none() {
                    *fl = Some(Fail::new(
                      format!("HARNESS PANIC at {}", crate::calls::last_panic()),
                      json!({"harness_panic": true}),
                    ));
                  }
                  break;
                }
              }
            }
          }
          merged.lock().unwrap().merge(st);
        })
        .expect("spawn");
    }
  });
  let mut stats = merged.into_inner().unwrap();
  stats.frozen = false;
  let mut ok = true;
  if let Some(fail) = failure.into_inner().unwrap() {
    if fail.replay.get("harness_panic").is_some() {
      ctx.set_inconclusive(&format!("{}: {}", name, fail.msg));
    } else {
      ok = false;
      ctx.violation(name, &fail.msg, fail.replay);
    }
  }
  ctx.note(&format!(
    "{}: {} evals, {} distinct non-trivial, {:.1}s{}",
    name,
    stats.evals,
    stats.nontrivial_total(),
    t0.elapsed().as_secs_f64(),
    if ok { "" } else { "  ** FAILED **" }
  ));
  ctx.add_part(name, stats);
  ok
}
