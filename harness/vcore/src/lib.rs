//! Shared machinery for the anweiss/cddl property checks.
//!
//! * `ctx`       – tier / seed / paths, stdout capture (the library prints on its own)
//! * `engine`    – choice-tape generators driven by proptest `TestRunner`s (shrinking,
//!                 fixed seeds, parallel runners), statistics, violation reporting
//! * `evidence`  – evidence/<id>.json writer
//! * `findings`  – KNOWN_FINDINGS.json protocol
//! * `calls`     – panic-safe wrappers around the public API of the crate under test
pub mod calls;
pub mod ctx;
pub mod engine;
pub mod evidence;
pub mod findings;

pub mod cbor;
pub mod cmodel;
pub mod comments;
pub mod cddl_abnf;
pub mod earley;
pub mod jsonw;
pub mod parents;
pub mod sample;
pub mod sem;
pub mod semgen;
pub mod skel;
pub mod spans;
pub mod syngen;

pub use ctx::{Ctx, Tier};
pub use engine::{search, sweep, Fail, Stats, Tape};
pub use serde_json::{json, Value as J};
