//! CBOR data model (`CVal`), an encoder with per-node encoding knobs, a reference decoder
//! written from RFC 8949 (section 3 + Appendix C) and tape-driven generators / mutators.
//! Shares no code with the crate under test (nor with ciborium).
use crate::engine::Tape;

#[derive(Clone, Debug, PartialEq)]
pub enum CVal {
  /// unsigned or negative integer in -2^64 ..= 2^64-1
  Int(i128),
  Bytes(Vec<u8>),
  Text(String),
  Array(Vec<CVal>),
  /// ordered pairs, duplicates possible
  Map(Vec<(CVal, CVal)>),
  Tag(u64, Box<CVal>),
  /// simple value by number (20 false, 21 true, 22 null, 23 undefined)
  Simple(u8),
  /// float by value (bits of the f64)
  Float(u64),
}

impl CVal {
  pub fn f(v: f64) -> CVal {
    CVal::Float(v.to_bits())
  }
  pub fn null() -> CVal {
    CVal::Simple(22)
  }
  pub fn bool(b: bool) -> CVal {
    CVal::Simple(if b { 21 } else { 20 })
  }
  pub fn text(s: &str) -> CVal {
    CVal::Text(s.to_string())
  }
  /// diagnostic notation (for evidence samples and messages)
  pub fn diag(&self) -> String {
    match self {
      CVal::Int(v) => v.to_string(),
      CVal::Bytes(b) => format!("h'{}'", hex(b)),
      CVal::Text(s) => format!("{:?}", s),
      CVal::Array(a) => format!("[{}]", a.iter().map(|x| x.diag()).collect::<Vec<_>>().join(", ")),
      CVal::Map(m) => {
        format!("{{{}}}", m.iter().map(|(k, v)| format!("{}: {}", k.diag(), v.diag())).collect::<Vec<_>>().join(", "))
      }
      CVal::Tag(t, v) => format!("{}({})", t, v.diag()),
      CVal::Simple(20) => "false".into(),
      CVal::Simple(21) => "true".into(),
      CVal::Simple(22) => "null".into(),
      CVal::Simple(23) => "undefined".into(),
      CVal::Simple(n) => format!("simple({})", n),
      CVal::Float(b) => {
        let f = f64::from_bits(*b);
        if f.is_nan() {
          "NaN".into()
        } else if f.is_infinite() {
          if f > 0.0 { "Infinity".into() } else { "-Infinity".into() }
        } else {
          let s = format!("{:?}", f);
          s
        }
      }
    }
  }
  pub fn depth(&self) -> usize {
    match self {
      CVal::Array(a) => 1 + a.iter().map(|x| x.depth()).max().unwrap_or(0),
      CVal::Map(m) => 1 + m.iter().map(|(k, v)| k.depth().max(v.depth())).max().unwrap_or(0),
      CVal::Tag(_, v) => 1 + v.depth(),
      _ => 0,
    }
  }
}

pub fn hex(b: &[u8]) -> String {
  let mut s = String::with_capacity(b.len() * 2);
  for x in b {
    s.push_str(&format!("{:02x}", x));
  }
  s
}

pub fn unhex(s: &str) -> Vec<u8> {
  let s: Vec<u8> = s.bytes().filter(|c| c.is_ascii_hexdigit()).collect();
  (0..s.len() / 2).map(|i| u8::from_str_radix(std::str::from_utf8(&s[2 * i..2 * i + 2]).unwrap(), 16).unwrap()).collect()
}

// ---------------------------------------------------------------------------------------
// Encoder
// ---------------------------------------------------------------------------------------

/// Source of encoding decisions.
pub trait Knobs {
  /// extra head width steps (0 = minimal, 1.. = wider), may be ignored when already 8 bytes
  fn widen(&mut self) -> u8;
  /// encode this container / string with indefinite length
  fn indefinite(&mut self) -> bool;
  /// number of chunks for an indefinite string (>= 0)
  fn chunks(&mut self, len: usize) -> usize;
  /// float width to *prefer*: 0 = smallest exact, 1 = at least 32 bit, 2 = 64 bit
  fn float_width(&mut self) -> u8;
}

pub struct Canonical;
impl Knobs for Canonical {
  fn widen(&mut self) -> u8 {
    0
  }
  fn indefinite(&mut self) -> bool {
    false
  }
  fn chunks(&mut self, _len: usize) -> usize {
    1
  }
  fn float_width(&mut self) -> u8 {
    0
  }
}

pub struct TapeKnobs<'a, 'b> {
  pub t: &'a mut Tape<'b>,
  pub used_noncanonical: bool,
}
impl<'a, 'b> Knobs for TapeKnobs<'a, 'b> {
  fn widen(&mut self) -> u8 {
    let k = self.t.weighted(&[60, 15, 10, 8, 7]) as u8;
    if k > 0 {
      self.used_noncanonical = true;
    }
    k
  }
  fn indefinite(&mut self) -> bool {
    let b = self.t.chance(1, 3);
    if b {
      self.used_noncanonical = true;
    }
    b
  }
  fn chunks(&mut self, len: usize) -> usize {
    self.t.below(4.min(len + 2))
  }
  fn float_width(&mut self) -> u8 {
    let k = self.t.weighted(&[50, 25, 25]) as u8;
    if k > 0 {
      self.used_noncanonical = true;
    }
    k
  }
}

pub fn head(out: &mut Vec<u8>, mt: u8, arg: u64, widen: u8) {
  let min_w: u8 = if arg < 24 {
    0
  } else if arg <= 0xff {
    1
  } else if arg <= 0xffff {
    2
  } else if arg <= 0xffff_ffff {
    3
  } else {
    4
  };
  let w = (min_w + widen).min(4);
  match w {
    0 => out.push((mt << 5) | arg as u8),
    1 => {
      out.push((mt << 5) | 24);
      out.push(arg as u8)
    }
    2 => {
      out.push((mt << 5) | 25);
      out.extend_from_slice(&(arg as u16).to_be_bytes())
    }
    3 => {
      out.push((mt << 5) | 26);
      out.extend_from_slice(&(arg as u32).to_be_bytes())
    }
    _ => {
      out.push((mt << 5) | 27);
      out.extend_from_slice(&arg.to_be_bytes())
    }
  }
}

/// f64 -> f16 bits when exactly representable
pub fn f64_to_f16_exact(v: f64) -> Option<u16> {
  if v.is_nan() {
    // only quiet NaN without payload keeps its "value"
    return if v.to_bits() == f64::NAN.to_bits() { Some(0x7e00) } else { None };
  }
  for cand in f16_candidates(v) {
    if f16_to_f64(cand).to_bits() == v.to_bits() {
      return Some(cand);
    }
  }
  None
}

fn f16_candidates(v: f64) -> Vec<u16> {
  // brute force over the 2^16 values would be slow per call; derive from f32 conversion
  let f = v as f32;
  if (f as f64).to_bits() != v.to_bits() {
    return vec![];
  }
  let b = f.to_bits();
  let sign = ((b >> 16) & 0x8000) as u16;
  let exp = ((b >> 23) & 0xff) as i32;
  let man = b & 0x7f_ffff;
  if exp == 0xff {
    return vec![sign | 0x7c00 | (man >> 13) as u16];
  }
  let e = exp - 127;
  if e > 15 {
    return vec![];
  }
  if e >= -14 {
    if man & 0x1fff != 0 {
      return vec![];
    }
    return vec![sign | (((e + 15) as u16) << 10) | (man >> 13) as u16];
  }
  // subnormal half or zero
  if exp == 0 && man == 0 {
    return vec![sign];
  }
  if e < -24 {
    return vec![];
  }
  let full = man | 0x80_0000; // 24 bit significand, value = full * 2^(e-23)
  let shift = (-14 - e) + 13; // bits to drop to get the 10-bit subnormal mantissa
  if shift >= 32 || full & ((1u32 << shift) - 1) != 0 {
    return vec![];
  }
  vec![sign | (full >> shift) as u16]
}

pub fn f16_to_f64(h: u16) -> f64 {
  let sign = if h & 0x8000 != 0 { -1.0 } else { 1.0 };
  let exp = ((h >> 10) & 0x1f) as i32;
  let man = (h & 0x3ff) as f64;
  if exp == 0 {
    sign * man * 2f64.powi(-24)
  } else if exp == 31 {
    if man == 0.0 {
      sign * f64::INFINITY
    } else {
      // NaN: payload placed in the top mantissa bits (RFC 8949: widening preserves value; all NaNs equal here)
      f64::from_bits((if h & 0x8000 != 0 { 1u64 << 63 } else { 0 }) | 0x7ff0_0000_0000_0000 | (((h & 0x3ff) as u64) << 42))
    }
  } else {
    sign * (1.0 + man / 1024.0) * 2f64.powi(exp - 15)
  }
}

pub fn encode_with(v: &CVal, k: &mut dyn Knobs, out: &mut Vec<u8>) {
  match v {
    CVal::Int(i) => {
      if *i >= 0 {
        head(out, 0, *i as u64, k.widen())
      } else {
        head(out, 1, (-1 - *i) as u64, k.widen())
      }
    }
    CVal::Bytes(b) => enc_str(2, b, k, out, false),
    CVal::Text(s) => enc_str(3, s.as_bytes(), k, out, true),
    CVal::Array(a) => {
      if k.indefinite() {
        out.push(0x9f);
        for x in a {
          encode_with(x, k, out);
        }
        out.push(0xff);
      } else {
        head(out, 4, a.len() as u64, k.widen());
        for x in a {
          encode_with(x, k, out);
        }
      }
    }
    CVal::Map(m) => {
      if k.indefinite() {
        out.push(0xbf);
        for (a, b) in m {
          encode_with(a, k, out);
          encode_with(b, k, out);
        }
        out.push(0xff);
      } else {
        head(out, 5, m.len() as u64, k.widen());
        for (a, b) in m {
          encode_with(a, k, out);
          encode_with(b, k, out);
        }
      }
    }
    CVal::Tag(t, x) => {
      head(out, 6, *t, k.widen());
      encode_with(x, k, out);
    }
    CVal::Simple(n) => {
      if *n < 24 {
        out.push(0xe0 | n);
      } else {
        // 24..31 are not encodable (reserved); callers never build them
        out.push(0xf8);
        out.push(*n);
      }
    }
    CVal::Float(bits) => {
      let f = f64::from_bits(*bits);
      let want = k.float_width();
      let h = if want == 0 { f64_to_f16_exact(f) } else { None };
      if let Some(h) = h {
        out.push(0xf9);
        out.extend_from_slice(&h.to_be_bytes());
        return;
      }
      let f32v = f as f32;
      let f32_ok = if f.is_nan() { false } else { (f32v as f64).to_bits() == *bits };
      if want <= 1 && f32_ok {
        out.push(0xfa);
        out.extend_from_slice(&f32v.to_bits().to_be_bytes());
        return;
      }
      out.push(0xfb);
      out.extend_from_slice(&bits.to_be_bytes());
    }
  }
}

fn enc_str(mt: u8, b: &[u8], k: &mut dyn Knobs, out: &mut Vec<u8>, is_text: bool) {
  if k.indefinite() {
    out.push((mt << 5) | 31);
    let n = k.chunks(b.len());
    // split points on char boundaries for text
    let mut cuts: Vec<usize> = vec![];
    if n >= 2 && !b.is_empty() {
      for i in 1..n {
        let mut c = b.len() * i / n;
        if is_text {
          while c < b.len() && (b[c] & 0xc0) == 0x80 {
            c += 1;
          }
        }
        cuts.push(c);
      }
    }
    let mut prev = 0;
    if n >= 1 {
      for c in cuts.into_iter().chain(std::iter::once(b.len())) {
        let c = c.max(prev);
        head(out, mt, (c - prev) as u64, k.widen());
        out.extend_from_slice(&b[prev..c]);
        prev = c;
      }
    } else if !b.is_empty() {
      head(out, mt, b.len() as u64, k.widen());
      out.extend_from_slice(b);
    }
    out.push(0xff);
  } else {
    head(out, mt, b.len() as u64, k.widen());
    out.extend_from_slice(b);
  }
}

pub fn encode(v: &CVal) -> Vec<u8> {
  let mut out = vec![];
  encode_with(v, &mut Canonical, &mut out);
  out
}

pub fn encode_knobs(v: &CVal, t: &mut Tape) -> (Vec<u8>, bool) {
  let mut out = vec![];
  let mut k = TapeKnobs { t, used_noncanonical: false };
  encode_with(v, &mut k, &mut out);
  (out, k.used_noncanonical)
}

// ---------------------------------------------------------------------------------------
// Reference decoder (RFC 8949 section 3, Appendix C)
// ---------------------------------------------------------------------------------------

#[derive(Clone, Debug, PartialEq)]
pub enum RefErr {
  Truncated,
  ReservedAi,
  UnexpectedBreak,
  BadChunk,
  BadUtf8,
  BadSimple,
  IndefOnWrongMajor,
  TooDeep,
}

pub struct RefDec<'a> {
  b: &'a [u8],
  pub pos: usize,
  pub heads: usize,
  max_depth: usize,
}

enum Item {
  Val(CVal),
  Break,
}

impl<'a> RefDec<'a> {
  pub fn new(b: &'a [u8]) -> Self {
    RefDec { b, pos: 0, heads: 0, max_depth: 100_000 }
  }
  fn take(&mut self, n: usize) -> Result<&'a [u8], RefErr> {
    if self.b.len() - self.pos < n {
      return Err(RefErr::Truncated);
    }
    let s = &self.b[self.pos..self.pos + n];
    self.pos += n;
    Ok(s)
  }
  /// (major, ai, argument)
  fn head(&mut self) -> Result<(u8, u8, u64), RefErr> {
    let ib = self.take(1)?[0];
    self.heads += 1;
    let mt = ib >> 5;
    let ai = ib & 31;
    let arg = match ai {
      0..=23 => ai as u64,
      24 => self.take(1)?[0] as u64,
      25 => u16::from_be_bytes(self.take(2)?.try_into().unwrap()) as u64,
      26 => u32::from_be_bytes(self.take(4)?.try_into().unwrap()) as u64,
      27 => u64::from_be_bytes(self.take(8)?.try_into().unwrap()),
      28..=30 => return Err(RefErr::ReservedAi),
      _ => 0,
    };
    Ok((mt, ai, arg))
  }
  fn item(&mut self, depth: usize, allow_break: bool) -> Result<Item, RefErr> {
    if depth > self.max_depth {
      return Err(RefErr::TooDeep);
    }
    let (mt, ai, arg) = self.head()?;
    let indef = ai == 31;
    Ok(Item::Val(match mt {
      0 => {
        if indef {
          return Err(RefErr::IndefOnWrongMajor);
        }
        CVal::Int(arg as i128)
      }
      1 => {
        if indef {
          return Err(RefErr::IndefOnWrongMajor);
        }
        CVal::Int(-1 - arg as i128)
      }
      2 | 3 => {
        let mut buf: Vec<u8> = vec![];
        if indef {
          loop {
            let (m2, a2, n2) = self.head()?;
            if m2 == 7 && a2 == 31 {
              break;
            }
            if m2 != mt || a2 == 31 {
              return Err(RefErr::BadChunk);
            }
            let n = usize::try_from(n2).map_err(|_| RefErr::Truncated)?;
            let chunk = self.take(n)?;
            if mt == 3 && std::str::from_utf8(chunk).is_err() {
              return Err(RefErr::BadUtf8);
            }
            buf.extend_from_slice(chunk);
          }
        } else {
          let n = usize::try_from(arg).map_err(|_| RefErr::Truncated)?;
          buf.extend_from_slice(self.take(n)?);
        }
        if mt == 2 {
          CVal::Bytes(buf)
        } else {
          CVal::Text(String::from_utf8(buf).map_err(|_| RefErr::BadUtf8)?)
        }
      }
      4 => {
        let mut items = vec![];
        if indef {
          loop {
            match self.item(depth + 1, true)? {
              Item::Break => break,
              Item::Val(v) => items.push(v),
            }
          }
        } else {
          for _ in 0..arg {
            match self.item(depth + 1, false)? {
              Item::Val(v) => items.push(v),
              Item::Break => unreachable!(),
            }
          }
        }
        CVal::Array(items)
      }
      5 => {
        let mut pairs = vec![];
        if indef {
          loop {
            let k = match self.item(depth + 1, true)? {
              Item::Break => break,
              Item::Val(v) => v,
            };
            let v = match self.item(depth + 1, false)? {
              Item::Val(v) => v,
              Item::Break => unreachable!(),
            };
            pairs.push((k, v));
          }
        } else {
          for _ in 0..arg {
            let k = match self.item(depth + 1, false)? {
              Item::Val(v) => v,
              Item::Break => unreachable!(),
            };
            let v = match self.item(depth + 1, false)? {
              Item::Val(v) => v,
              Item::Break => unreachable!(),
            };
            pairs.push((k, v));
          }
        }
        CVal::Map(pairs)
      }
      6 => {
        if indef {
          return Err(RefErr::IndefOnWrongMajor);
        }
        match self.item(depth + 1, false)? {
          Item::Val(v) => CVal::Tag(arg, Box::new(v)),
          Item::Break => unreachable!(),
        }
      }
      _ => match ai {
        0..=23 => CVal::Simple(ai),
        24 => {
          if arg < 32 {
            return Err(RefErr::BadSimple);
          }
          CVal::Simple(arg as u8)
        }
        25 => CVal::Float(f16_to_f64(arg as u16).to_bits()),
        26 => CVal::Float((f32::from_bits(arg as u32) as f64).to_bits()),
        27 => CVal::Float(arg),
        _ => {
          if allow_break {
            return Ok(Item::Break);
          }
          return Err(RefErr::UnexpectedBreak);
        }
      },
    }))
  }
}

/// Decode the first data item of `b`. Returns the value and the number of bytes consumed.
pub fn ref_decode(b: &[u8]) -> Result<(CVal, usize), RefErr> {
  let mut d = RefDec::new(b);
  match d.item(0, false)? {
    Item::Val(v) => Ok((v, d.pos)),
    Item::Break => unreachable!(),
  }
}

/// number of heads in the first item (or up to the error) - used by non-triviality rules
pub fn ref_heads(b: &[u8]) -> usize {
  let mut d = RefDec::new(b);
  let _ = d.item(0, false);
  d.heads
}

/// nesting depth of the (possibly malformed) prefix, by a head scanner that follows lengths
pub fn nesting_depth(b: &[u8]) -> usize {
  // conservative: count the longest run of container/tag heads along any path = use the decoder
  fn walk(d: &mut RefDec, depth: usize, maxd: &mut usize, budget: &mut usize) -> Result<bool, ()> {
    if *budget == 0 {
      return Err(());
    }
    *budget -= 1;
    *maxd = (*maxd).max(depth);
    let (mt, ai, arg) = d.head().map_err(|_| ())?;
    match mt {
      0 | 1 => Ok(false),
      2 | 3 => {
        if ai == 31 {
          loop {
            let (m2, a2, n2) = d.head().map_err(|_| ())?;
            if m2 == 7 && a2 == 31 {
              break;
            }
            if a2 == 31 {
              return Err(());
            }
            d.take(usize::try_from(n2).map_err(|_| ())?).map_err(|_| ())?;
          }
        } else {
          d.take(usize::try_from(arg).map_err(|_| ())?).map_err(|_| ())?;
        }
        Ok(false)
      }
      4 | 5 => {
        let mul = if mt == 5 { 2 } else { 1 };
        if ai == 31 {
          loop {
            if walk(d, depth + 1, maxd, budget)? {
              break;
            }
          }
        } else {
          let n = arg.saturating_mul(mul);
          for _ in 0..n {
            walk(d, depth + 1, maxd, budget)?;
          }
        }
        Ok(false)
      }
      6 => {
        walk(d, depth + 1, maxd, budget)?;
        Ok(false)
      }
      _ => Ok(ai == 31),
    }
  }
  let mut d = RefDec::new(b);
  let mut maxd = 0;
  let mut budget = 200_000;
  let _ = walk(&mut d, 0, &mut maxd, &mut budget);
  maxd
}

// ---------------------------------------------------------------------------------------
// Generators
// ---------------------------------------------------------------------------------------

pub const EDGE_UINTS: &[u64] = &[
  0, 1, 10, 23, 24, 25, 100, 255, 256, 1000, 65535, 65536, 1_000_000, 4294967295, 4294967296, 9007199254740992,
  9223372036854775807, 9223372036854775808, 18446744073709551615,
];

pub const GEN_TEXTS: &[&str] = &["", "a", "b", "abc", "key", "hello", "caf\u{e9}", "\u{4e16}\u{754c}", "\u{1f600}x", "a/b", "x y"];

pub fn gen_int(t: &mut Tape) -> i128 {
  match t.weighted(&[40, 25, 20, 15]) {
    0 => t.range(-3, 12) as i128,
    1 => *t.pick(EDGE_UINTS) as i128,
    2 => -1 - (*t.pick(EDGE_UINTS) as i128),
    _ => {
      let v = t.u64_full() >> t.below(64);
      if t.flag() { v as i128 } else { -1 - v as i128 }
    }
  }
}

pub fn gen_float(t: &mut Tape) -> f64 {
  match t.weighted(&[50, 20, 15, 15]) {
    0 => *t.pick(&[0.0, -0.0, 1.0, 1.5, -2.5, 0.5, 100.0, 65504.0, 1e10, 3.4028234663852886e38, 0.1, -0.1, 1e300, 5.960464477539063e-8, 1.0e-45]),
    1 => *t.pick(&[f64::INFINITY, f64::NEG_INFINITY, f64::NAN]),
    2 => (t.range(-2000, 2000) as f64) / 8.0,
    _ => f64::from_bits(t.u64_full()),
  }
}

pub fn gen_cval(t: &mut Tape, depth: usize) -> CVal {
  let leaf = depth == 0;
  let w = [20, 10, 12, if leaf { 0 } else { 14 }, if leaf { 0 } else { 14 }, if leaf { 0 } else { 6 }, 8, 10];
  match t.weighted(&w) {
    0 => CVal::Int(gen_int(t)),
    1 => {
      let n = t.weighted(&[20, 30, 20, 10, 5, 5]);
      let n = if n == 5 { 24 + t.below(300) } else { n };
      CVal::Bytes((0..n).map(|_| t.below(256) as u8).collect())
    }
    2 => {
      if t.chance(1, 10) {
        let n = 20 + t.below(300);
        CVal::Text((0..n).map(|i| (b'a' + (i % 26) as u8) as char).collect())
      } else {
        CVal::text(*t.pick(GEN_TEXTS))
      }
    }
    3 => {
      let n = t.weighted(&[10, 25, 25, 15, 10, 5, 10]);
      let n = if n == 6 { 24 + t.below(8) } else { n };
      CVal::Array((0..n).map(|_| gen_cval(t, if n > 6 { 0 } else { depth - 1 })).collect())
    }
    4 => {
      let n = t.weighted(&[10, 30, 30, 15, 10, 5]);
      CVal::Map((0..n).map(|_| (gen_cval(t, (depth - 1).min(1)), gen_cval(t, depth - 1))).collect())
    }
    5 => {
      let tag = match t.below(4) {
        0 => t.below(24) as u64,
        1 => *t.pick(&[24u64, 32, 255, 256, 55799, 65536, 4294967296]),
        2 => *t.pick(EDGE_UINTS),
        _ => t.below(6) as u64,
      };
      CVal::Tag(tag, Box::new(gen_cval(t, depth - 1)))
    }
    6 => {
      let n = match t.below(4) {
        0 => 20 + t.below(4) as u8,
        1 => t.below(20) as u8,
        2 => 32 + t.below(224) as u8,
        _ => *t.pick(&[20u8, 21, 22, 23, 0, 19, 32, 255]),
      };
      CVal::Simple(n)
    }
    _ => CVal::f(gen_float(t)),
  }
}

/// Apply one byte-level mutation to an encoding (for decoder robustness / well-formedness).
pub fn mutate(t: &mut Tape, b: &[u8]) -> (Vec<u8>, &'static str) {
  let mut v = b.to_vec();
  let n = v.len();
  match t.below(12) {
    0 => {
      // proper prefix
      let k = t.below(n.max(1));
      v.truncate(k);
      (v, "prefix")
    }
    1 if n > 0 => {
      let i = t.below(n);
      v[i] ^= 1 << t.below(8);
      (v, "bitflip")
    }
    2 if n > 0 => {
      let i = t.below(n);
      v[i] = t.below(256) as u8;
      (v, "byte_replace")
    }
    3 => {
      let i = t.below(n + 1);
      v.insert(i, 0xff);
      (v, "insert_break")
    }
    4 if n > 0 => {
      if let Some(i) = v.iter().rposition(|x| *x == 0xff) {
        v.remove(i);
      }
      (v, "remove_break")
    }
    5 if n > 0 => {
      // reserved additional information
      let i = t.below(n);
      v[i] = (v[i] & 0xe0) | (28 + t.below(3) as u8);
      (v, "reserved_ai")
    }
    6 => {
      let i = t.below(n + 1);
      v.insert(i, 0xf8);
      v.insert(i + 1, t.below(32) as u8);
      (v, "two_byte_simple_lt32")
    }
    7 if n > 0 => {
      // set additional info to 31 on some head
      let i = t.below(n);
      v[i] |= 31;
      (v, "force_indefinite")
    }
    8 if n > 0 => {
      // lying head: replace byte with an 8-byte length head of the same major type
      let i = t.below(n);
      let mt = v[i] & 0xe0;
      let big: u64 = *t.pick(&[0x10_0000_0000u64, u64::MAX, 0x7fff_ffff_ffff_ffff, 0xffff_ffff, 70_000, 1 << 33]);
      let mut ins = vec![mt | 27];
      ins.extend_from_slice(&big.to_be_bytes());
      v.splice(i..i + 1, ins);
      (v, "lying_head")
    }
    9 => {
      let i = t.below(n + 1);
      v.insert(i, t.below(256) as u8);
      (v, "insert_byte")
    }
    10 if n > 0 => {
      let i = t.below(n);
      v.remove(i);
      (v, "delete_byte")
    }
    _ => {
      // trailing garbage
      for _ in 0..1 + t.below(3) {
        v.push(t.below(256) as u8);
      }
      (v, "trailing")
    }
  }
}

/// Hand-built ill-formed string encodings (chunk rules, UTF-8).
pub fn gen_bad_string(t: &mut Tape) -> (Vec<u8>, &'static str) {
  match t.below(7) {
    0 => (vec![0x7f, 0x7f, 0x61, 0x61, 0xff, 0xff], "nested_indef_text_chunk"),
    1 => (vec![0x5f, 0x5f, 0x41, 0x00, 0xff, 0xff], "nested_indef_bytes_chunk"),
    2 => (vec![0x7f, 0x41, 0x61, 0xff], "bytes_chunk_in_text"),
    3 => (vec![0x5f, 0x61, 0x61, 0xff], "text_chunk_in_bytes"),
    4 => (vec![0x7f, 0x61, 0xc3, 0x61, 0xa9, 0xff], "utf8_split_across_chunks"),
    5 => {
      let bad: &[&[u8]] = &[&[0xff], &[0xc3], &[0xe2, 0x82], &[0xc0, 0x80], &[0xed, 0xa0, 0x80], &[0xf4, 0x90, 0x80, 0x80]];
      let b = *t.pick(bad);
      let mut v = vec![0x60 | b.len() as u8];
      v.extend_from_slice(b);
      (v, "invalid_utf8_text")
    }
    _ => (vec![0x7f, 0x01, 0xff], "int_chunk_in_text"),
  }
}
