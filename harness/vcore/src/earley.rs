//! `earley`: an ABNF (RFC 5234 / RFC 7405) reader and an Earley recognizer over characters.
//! Used as the independent acceptance oracle for C03: the grammar is given as ABNF text.
use std::collections::HashMap;

#[derive(Clone, Debug)]
enum Node {
  Alt(Vec<Node>),
  Cat(Vec<Node>),
  Rep(usize, Option<usize>, Box<Node>),
  Name(String),
  /// one character out of the ranges
  Set(Vec<(u32, u32)>),
}

#[derive(Clone, Debug)]
pub enum Sym {
  T(Vec<(u32, u32)>),
  N(usize),
}

pub struct Grammar {
  pub names: Vec<String>,
  /// productions: (lhs, rhs)
  pub prods: Vec<(usize, Vec<Sym>)>,
  by_lhs: Vec<Vec<usize>>,
  nullable: Vec<bool>,
  index: HashMap<String, usize>,
}

struct P<'a> {
  s: &'a [u8],
  i: usize,
}

impl<'a> P<'a> {
  fn ws(&mut self) {
    // white space, comments and line breaks followed by an indented continuation
    loop {
      while self.i < self.s.len() && (self.s[self.i] == b' ' || self.s[self.i] == b'\t') {
        self.i += 1;
      }
      if self.i < self.s.len() && self.s[self.i] == b';' {
        while self.i < self.s.len() && self.s[self.i] != b'\n' {
          self.i += 1;
        }
      }
      if self.i < self.s.len() && self.s[self.i] == b'\n' {
        // continuation only if the next line starts with white space and is not empty
        let mut j = self.i + 1;
        let mut indented = false;
        while j < self.s.len() && (self.s[j] == b' ' || self.s[j] == b'\t') {
          j += 1;
          indented = true;
        }
        if indented && j < self.s.len() && self.s[j] != b'\n' {
          self.i = j;
          continue;
        }
        // a blank or comment-only indented line followed by a continuation
        if indented && j < self.s.len() && self.s[j] == b'\n' {
          self.i = j;
          continue;
        }
      }
      break;
    }
  }
  fn peek(&self) -> u8 {
    if self.i < self.s.len() {
      self.s[self.i]
    } else {
      0
    }
  }
  fn alt(&mut self) -> Node {
    let mut alts = vec![self.cat()];
    loop {
      self.ws();
      if self.peek() == b'/' {
        self.i += 1;
        self.ws();
        alts.push(self.cat());
      } else {
        break;
      }
    }
    if alts.len() == 1 {
      alts.pop().unwrap()
    } else {
      Node::Alt(alts)
    }
  }
  fn cat(&mut self) -> Node {
    let mut items = vec![];
    loop {
      self.ws();
      let c = self.peek();
      if c == 0 || c == b'/' || c == b')' || c == b']' || c == b'\n' {
        break;
      }
      items.push(self.rep());
    }
    if items.len() == 1 {
      items.pop().unwrap()
    } else {
      Node::Cat(items)
    }
  }
  fn num(&mut self) -> Option<usize> {
    let st = self.i;
    while self.peek().is_ascii_digit() {
      self.i += 1;
    }
    if self.i > st {
      std::str::from_utf8(&self.s[st..self.i]).unwrap().parse().ok()
    } else {
      None
    }
  }
  fn rep(&mut self) -> Node {
    let lo = self.num();
    if self.peek() == b'*' {
      self.i += 1;
      let hi = self.num();
      let e = self.elem();
      return Node::Rep(lo.unwrap_or(0), hi, Box::new(e));
    }
    if let Some(n) = lo {
      let e = self.elem();
      return Node::Rep(n, Some(n), Box::new(e));
    }
    self.elem()
  }
  fn elem(&mut self) -> Node {
    match self.peek() {
      b'(' => {
        self.i += 1;
        let a = self.alt();
        self.ws();
        assert_eq!(self.peek(), b')', "ABNF: ')' expected at {}", self.i);
        self.i += 1;
        a
      }
      b'[' => {
        self.i += 1;
        let a = self.alt();
        self.ws();
        assert_eq!(self.peek(), b']', "ABNF: ']' expected at {}", self.i);
        self.i += 1;
        Node::Rep(0, Some(1), Box::new(a))
      }
      b'"' => self.string(false),
      b'%' => {
        self.i += 1;
        match self.peek() {
          b's' => {
            self.i += 1;
            self.string(true)
          }
          b'i' => {
            self.i += 1;
            self.string(false)
          }
          b'x' => {
            self.i += 1;
            let a = self.hex();
            if self.peek() == b'-' {
              self.i += 1;
              let b = self.hex();
              Node::Set(vec![(a, b)])
            } else {
              let mut seq = vec![Node::Set(vec![(a, a)])];
              while self.peek() == b'.' {
                self.i += 1;
                let c = self.hex();
                seq.push(Node::Set(vec![(c, c)]));
              }
              if seq.len() == 1 {
                seq.pop().unwrap()
              } else {
                Node::Cat(seq)
              }
            }
          }
          c => panic!("ABNF: unsupported num-val %{}", c as char),
        }
      }
      c if c.is_ascii_alphabetic() => {
        let st = self.i;
        while self.peek().is_ascii_alphanumeric() || self.peek() == b'-' {
          self.i += 1;
        }
        Node::Name(String::from_utf8_lossy(&self.s[st..self.i]).to_string())
      }
      c => panic!("ABNF: unexpected {:?} at {}", c as char, self.i),
    }
  }
  fn hex(&mut self) -> u32 {
    let st = self.i;
    while self.peek().is_ascii_hexdigit() {
      self.i += 1;
    }
    u32::from_str_radix(std::str::from_utf8(&self.s[st..self.i]).unwrap(), 16).expect("hex")
  }
  fn string(&mut self, case_sensitive: bool) -> Node {
    assert_eq!(self.peek(), b'"');
    self.i += 1;
    let mut seq = vec![];
    while self.peek() != b'"' {
      let c = self.peek();
      let mut set = vec![(c as u32, c as u32)];
      if !case_sensitive && c.is_ascii_alphabetic() {
        let o = if c.is_ascii_lowercase() { c.to_ascii_uppercase() } else { c.to_ascii_lowercase() };
        set.push((o as u32, o as u32));
      }
      seq.push(Node::Set(set));
      self.i += 1;
    }
    self.i += 1;
    if seq.len() == 1 {
      seq.pop().unwrap()
    } else {
      Node::Cat(seq)
    }
  }
}

impl Grammar {
  /// Read ABNF rules (`name = elements`, `name =/ elements`; continuation lines are indented).
  pub fn from_abnf(text: &str) -> Grammar {
    let mut rules: Vec<(String, Node)> = vec![];
    let mut p = P { s: text.as_bytes(), i: 0 };
    loop {
      // skip blank lines and comment lines
      while p.i < p.s.len() && (p.s[p.i] == b'\n' || p.s[p.i] == b' ' || p.s[p.i] == b'\t' || p.s[p.i] == b';') {
        if p.s[p.i] == b';' {
          while p.i < p.s.len() && p.s[p.i] != b'\n' {
            p.i += 1;
          }
        } else {
          p.i += 1;
        }
      }
      if p.i >= p.s.len() {
        break;
      }
      let st = p.i;
      while p.peek().is_ascii_alphanumeric() || p.peek() == b'-' {
        p.i += 1;
      }
      let name = String::from_utf8_lossy(&p.s[st..p.i]).to_string();
      assert!(!name.is_empty(), "ABNF: rule name expected at {}: {:?}", st, &text[st..(st + 30).min(text.len())]);
      p.ws();
      assert_eq!(p.peek(), b'=', "ABNF: '=' expected after {}", name);
      p.i += 1;
      let incremental = p.peek() == b'/';
      if incremental {
        p.i += 1;
      }
      let body = p.alt();
      if incremental {
        let slot = rules.iter_mut().find(|(n, _)| n.eq_ignore_ascii_case(&name)).expect("=/ of an undefined rule");
        let old = std::mem::replace(&mut slot.1, Node::Alt(vec![]));
        slot.1 = Node::Alt(vec![old, body]);
      } else {
        rules.push((name, body));
      }
    }
    let mut g = Grammar { names: vec![], prods: vec![], by_lhs: vec![], nullable: vec![], index: HashMap::new() };
    for (n, _) in &rules {
      g.nt(&n.to_ascii_lowercase());
    }
    for (n, body) in &rules {
      let lhs = g.index[&n.to_ascii_lowercase()];
      g.lower_into(lhs, body);
    }
    for (lhs, rhs) in &g.prods {
      let _ = (lhs, rhs);
    }
    g.by_lhs = vec![vec![]; g.names.len()];
    for (i, (lhs, _)) in g.prods.iter().enumerate() {
      g.by_lhs[*lhs].push(i);
    }
    for (i, n) in g.names.iter().enumerate() {
      assert!(!g.by_lhs[i].is_empty(), "ABNF: rule {} is used but not defined", n);
    }
    // nullable fixpoint
    g.nullable = vec![false; g.names.len()];
    loop {
      let mut changed = false;
      for (lhs, rhs) in &g.prods {
        if !g.nullable[*lhs] && rhs.iter().all(|s| matches!(s, Sym::N(n) if g.nullable[*n])) {
          g.nullable[*lhs] = true;
          changed = true;
        }
      }
      if !changed {
        break;
      }
    }
    g
  }

  fn nt(&mut self, name: &str) -> usize {
    if let Some(i) = self.index.get(name) {
      return *i;
    }
    let i = self.names.len();
    self.names.push(name.to_string());
    self.index.insert(name.to_string(), i);
    i
  }

  fn fresh(&mut self, hint: &str) -> usize {
    let name = format!("{}#{}", hint, self.names.len());
    self.nt(&name)
  }

  /// add the productions of `node` to nonterminal `lhs`
  fn lower_into(&mut self, lhs: usize, node: &Node) {
    match node {
      Node::Alt(alts) => {
        for a in alts {
          self.lower_into(lhs, a);
        }
      }
      other => {
        let rhs = self.seq(other);
        self.prods.push((lhs, rhs));
      }
    }
  }

  fn seq(&mut self, node: &Node) -> Vec<Sym> {
    match node {
      Node::Cat(items) => items.iter().flat_map(|i| self.seq(i)).collect(),
      other => vec![self.sym(other)],
    }
  }

  fn sym(&mut self, node: &Node) -> Sym {
    match node {
      Node::Set(r) => Sym::T(r.clone()),
      Node::Name(n) => Sym::N(self.nt(&n.to_ascii_lowercase())),
      Node::Alt(_) | Node::Cat(_) => {
        let f = self.fresh("grp");
        self.lower_into(f, node);
        Sym::N(f)
      }
      Node::Rep(lo, hi, e) => {
        let f = self.fresh("rep");
        let inner = self.sym(e);
        match hi {
          None => {
            // f = lo*inner tail ; tail = eps / inner tail
            let tail = self.fresh("star");
            self.prods.push((tail, vec![]));
            self.prods.push((tail, vec![inner.clone(), Sym::N(tail)]));
            let mut rhs: Vec<Sym> = (0..*lo).map(|_| inner.clone()).collect();
            rhs.push(Sym::N(tail));
            self.prods.push((f, rhs));
          }
          Some(hi) => {
            for k in *lo..=*hi {
              self.prods.push((f, (0..k).map(|_| inner.clone()).collect()));
            }
          }
        }
        Sym::N(f)
      }
    }
  }

  /// Is `input` derivable from `start`?
  pub fn recognizes(&self, start: &str, input: &str) -> bool {
    self.recognizes_longest(start, input, &[])
  }

  /// Derivability with longest-match tokens: a derivation may use nonterminal `name` for the span [o, i) only when
  /// `scan(chars, o) == Some(i)` (the scanner returns the end of the longest token starting at o).
  pub fn recognizes_longest(&self, start: &str, input: &str, longest: &[(&str, &dyn Fn(&[u32], usize) -> Option<usize>)]) -> bool {
    let start = match self.index.get(&start.to_ascii_lowercase()) {
      Some(s) => *s,
      None => panic!("no rule {}", start),
    };
    let chars: Vec<u32> = input.chars().map(|c| c as u32).collect();
    let n = chars.len();
    // per constrained nonterminal: the only admissible end for each origin
    let mut ends: HashMap<usize, Vec<Option<usize>>> = HashMap::new();
    for (name, scan) in longest {
      let nt = *self.index.get(&name.to_ascii_lowercase()).unwrap_or_else(|| panic!("no rule {}", name));
      ends.insert(nt, (0..=n).map(|o| scan(&chars, o)).collect());
    }
    // item = (prod, dot, origin)
    let mut sets: Vec<Vec<(u32, u16, u32)>> = vec![vec![]; n + 1];
    let mut seen: Vec<std::collections::HashSet<(u32, u16, u32)>> = vec![Default::default(); n + 1];
    for &p in &self.by_lhs[start] {
      let it = (p as u32, 0u16, 0u32);
      if seen[0].insert(it) {
        sets[0].push(it);
      }
    }
    for i in 0..=n {
      let mut k = 0;
      while k < sets[i].len() {
        let (p, dot, origin) = sets[i][k];
        k += 1;
        let (lhs, rhs) = &self.prods[p as usize];
        if (dot as usize) < rhs.len() {
          match &rhs[dot as usize] {
            Sym::N(nt) => {
              // predict
              for &q in &self.by_lhs[*nt] {
                let it = (q as u32, 0u16, i as u32);
                if seen[i].insert(it) {
                  sets[i].push(it);
                }
              }
              // nullable: advance at once
              if self.nullable[*nt] {
                let it = (p, dot + 1, origin);
                if seen[i].insert(it) {
                  sets[i].push(it);
                }
              }
            }
            Sym::T(ranges) => {
              if i < n && ranges.iter().any(|(a, b)| *a <= chars[i] && chars[i] <= *b) {
                let it = (p, dot + 1, origin);
                if seen[i + 1].insert(it) {
                  sets[i + 1].push(it);
                }
              }
            }
          }
        } else {
          // complete
          let o = origin as usize;
          if let Some(e) = ends.get(lhs) {
            if e[o] != Some(i) {
              continue;
            }
          }
          let mut j = 0;
          while j < sets[o].len() {
            let (pp, pd, po) = sets[o][j];
            j += 1;
            let prhs = &self.prods[pp as usize].1;
            if (pd as usize) < prhs.len() {
              if let Sym::N(x) = &prhs[pd as usize] {
                if x == lhs {
                  let it = (pp, pd + 1, po);
                  if seen[i].insert(it) {
                    sets[i].push(it);
                  }
                }
              }
            }
          }
        }
      }
      if i < n && sets[i + 1].is_empty() {
        return false;
      }
    }
    sets[n].iter().any(|(p, dot, origin)| *origin == 0 && self.prods[*p as usize].0 == start && *dot as usize == self.prods[*p as usize].1.len())
  }
}

#[cfg(test)]
mod tests {
  use super::*;
  #[test]
  fn small() {
    let g = Grammar::from_abnf("s = *(a / b) [c]\na = \"x\" 1*2DIGIT\nb = %x79\nc = %s\"Z\"\nDIGIT = %x30-39\n");
    assert!(g.recognizes("s", ""));
    assert!(g.recognizes("s", "x1"));
    assert!(g.recognizes("s", "X12yZ"));
    assert!(!g.recognizes("s", "x123"));
    assert!(!g.recognizes("s", "z"));
  }
}
