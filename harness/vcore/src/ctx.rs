//! Run context: property id, tier, seed, output channels, result accounting.
use crate::engine::Stats;
use crate::findings::Findings;
use serde_json::{json, Value as J};
use std::collections::BTreeMap;
use std::io::Write;
use std::os::unix::io::FromRawFd;
use std::path::PathBuf;
use std::sync::atomic::{AtomicU64, Ordering};
use std::sync::Mutex;
use std::time::Instant;

#[derive(Clone, Copy, PartialEq, Eq, Debug)]
pub enum Tier {
  Quick,
  Thorough,
}

impl Tier {
  pub fn name(self) -> &'static str {
    match self {
      Tier::Quick => "quick",
      Tier::Thorough => "thorough",
    }
  }
  /// pick a work amount per tier
  pub fn pick<T>(self, quick: T, thorough: T) -> T {
    match self {
      Tier::Quick => quick,
      Tier::Thorough => thorough,
    }
  }
}

pub struct Ctx {
  pub prop: String,
  pub tier: Tier,
  pub seed: u64,
  pub threads: usize,
  pub verif_dir: PathBuf,
  pub findings: Findings,
  start: Instant,
  out: Mutex<std::fs::File>,
  err: Mutex<std::fs::File>,
  pub violations: AtomicU64,
  pub inconclusive: AtomicU64,
  parts: Mutex<Vec<(String, Stats)>>,
  pub assumptions: Mutex<Vec<String>>,
  pub rule: Mutex<String>,
  pub extra: Mutex<BTreeMap<String, J>>,
  pub known_lines: Mutex<Vec<String>>,
}

/// Redirect the process' fd 1 and 2 to /dev/null (the library under test prints
/// diagnostics by itself) and return private handles to the original streams.
fn capture_std() -> (std::fs::File, std::fs::File) {
  unsafe {
    let o = libc::dup(1);
    let e = libc::dup(2);
    let keep_err = std::env::var("VERIF_KEEP_STDERR").is_ok();
    let dn = libc::open(b"/dev/null\0".as_ptr() as *const libc::c_char, libc::O_WRONLY);
    if dn >= 0 {
      libc::dup2(dn, 1);
      if !keep_err {
        libc::dup2(dn, 2);
      }
      libc::close(dn);
    }
    (std::fs::File::from_raw_fd(o), std::fs::File::from_raw_fd(e))
  }
}

impl Ctx {
  /// `vcheck <Cxx> [quick|thorough]`; VERIF_TIER and VERIF_SEED from the environment.
  pub fn new(prop: &str, tier_arg: Option<&str>) -> Ctx {
    let tier_s = tier_arg
      .map(|s| s.to_string())
      .or_else(|| std::env::var("VERIF_TIER").ok())
      .unwrap_or_else(|| "quick".into());
    let tier = if tier_s.starts_with('t') { Tier::Thorough } else { Tier::Quick };
    let seed = std::env::var("VERIF_SEED")
      .ok()
      .and_then(|s| s.trim().parse::<i128>().ok())
      .map(|v| v as u64)
      .unwrap_or(20260922);
    let threads = std::env::var("VERIF_THREADS")
      .ok()
      .and_then(|s| s.parse().ok())
      .unwrap_or_else(|| std::thread::available_parallelism().map(|n| n.get()).unwrap_or(8).min(16));
    let verif_dir = PathBuf::from(std::env::var("VERIF_DIR").unwrap_or_else(|_| "/verif".into()));
    let (o, e) = capture_std();
    crate::calls::install_panic_hook();
    let _ = std::fs::create_dir_all(verif_dir.join("target"));
    crate::calls::install_abort_dump(&verif_dir.join("target").join(format!("abort_{}.jsonl", prop)));
    {
      let dir = verif_dir.clone();
      let prop_s = prop.to_string();
      let limit = std::env::var("VERIF_WATCHDOG_S").ok().and_then(|s| s.parse().ok()).unwrap_or(30u64);
      crate::calls::start_watchdog(limit, move |what| {
        let _ = std::fs::create_dir_all(dir.join("target"));
        let p = dir.join("target").join(format!("hang_{}.json", prop_s));
        let _ = std::fs::write(&p, &what);
        let msg = format!(
          "WATCHDOG: a call into the crate under test did not return within {} s; its inputs are in {} ; the run is inconclusive\n",
          limit,
          p.display()
        );
        let _ = std::fs::write(dir.join("target").join(format!("hang_{}.txt", prop_s)), &msg);
        unsafe { libc::_exit(2) };
      });
    }
    let findings = Findings::load(&verif_dir, prop);
    Ctx {
      prop: prop.to_string(),
      tier,
      seed,
      threads,
      verif_dir,
      findings,
      start: Instant::now(),
      out: Mutex::new(o),
      err: Mutex::new(e),
      violations: AtomicU64::new(0),
      inconclusive: AtomicU64::new(0),
      parts: Mutex::new(vec![]),
      assumptions: Mutex::new(vec![]),
      rule: Mutex::new(String::new()),
      extra: Mutex::new(BTreeMap::new()),
      known_lines: Mutex::new(vec![]),
    }
  }

  /// Line on the real stdout (VIOLATION / KNOWN-FINDING lines go here).
  pub fn say(&self, s: &str) {
    let mut o = self.out.lock().unwrap();
    let _ = writeln!(o, "{}", s);
    let _ = o.flush();
  }
  /// Line on the real stderr (progress, diagnostics).
  pub fn note(&self, s: &str) {
    let mut o = self.err.lock().unwrap();
    let _ = writeln!(o, "[{} {:.1}s] {}", self.prop, self.start.elapsed().as_secs_f64(), s);
  }

  pub fn elapsed(&self) -> f64 {
    self.start.elapsed().as_secs_f64()
  }

  pub fn assume(&self, s: &str) {
    let mut a = self.assumptions.lock().unwrap();
    if !a.iter().any(|x| x == s) {
      a.push(s.to_string());
    }
  }
  pub fn set_rule(&self, s: &str) {
    *self.rule.lock().unwrap() = s.to_string();
  }
  pub fn set_extra(&self, k: &str, v: J) {
    self.extra.lock().unwrap().insert(k.to_string(), v);
  }

  /// Is the exclusion predicate `name` active (an open finding names it)?
  pub fn excl(&self, name: &str) -> bool {
    self.findings.exclusion_active(name)
  }

  pub fn exclusions(&self) -> Vec<String> {
    self.findings.active_exclusions()
  }

  pub fn add_part(&self, name: &str, st: Stats) {
    self.parts.lock().unwrap().push((name.to_string(), st));
  }

  /// Record a violation: write the replay file, print the VIOLATION line.
  pub fn violation(&self, check: &str, msg: &str, mut replay: J) -> PathBuf {
    use std::hash::{Hash, Hasher};
    let mut h = std::collections::hash_map::DefaultHasher::new();
    replay.to_string().hash(&mut h);
    let dir = self.verif_dir.join("replays").join(&self.prop);
    let _ = std::fs::create_dir_all(&dir);
    let path = dir.join(format!("viol_{}_{:016x}.json", check, h.finish()));
    if let Some(o) = replay.as_object_mut() {
      o.insert("property".into(), json!(self.prop));
      o.entry("check").or_insert(json!(check));
      o.insert("failure".into(), json!(msg));
      o.insert("seed".into(), json!(self.seed));
    }
    let _ = std::fs::write(&path, serde_json::to_string_pretty(&replay).unwrap());
    self.violations.fetch_add(1, Ordering::SeqCst);
    self.say(&format!("VIOLATION property={} replay={}", self.prop, path.display()));
    self.note(&format!("violation in {}: {}", check, msg));
    path
  }

  pub fn set_inconclusive(&self, why: &str) {
    self.inconclusive.fetch_add(1, Ordering::SeqCst);
    self.note(&format!("INCONCLUSIVE: {}", why));
  }

  /// Replay tier: every committed file under replays/<prop>/ (except viol_* left over from
  /// earlier runs).  Witnesses of open findings are expected to fail (-> KNOWN-FINDING line),
  /// everything else must pass (-> VIOLATION otherwise).
  pub fn replay_tier(&self, replay: &dyn Fn(&J) -> Result<(), String>) {
    let dir = self.verif_dir.join("replays").join(&self.prop);
    let mut files: Vec<PathBuf> = std::fs::read_dir(&dir)
      .map(|rd| rd.filter_map(|e| e.ok()).map(|e| e.path()).collect())
      .unwrap_or_default();
    files.sort();
    let mut n_ok = 0u64;
    let mut n_known = 0u64;
    for p in files {
      let fname = p.file_name().unwrap().to_string_lossy().to_string();
      if !fname.ends_with(".json") || fname.starts_with("viol_") {
        continue;
      }
      let rel = format!("replays/{}/{}", self.prop, fname);
      let txt = match std::fs::read_to_string(&p) {
        Ok(t) => t,
        Err(_) => continue,
      };
      let case: J = match serde_json::from_str(&txt) {
        Ok(c) => c,
        Err(e) => {
          self.set_inconclusive(&format!("unreadable replay file {}: {}", rel, e));
          continue;
        }
      };
      let res = std::panic::catch_unwind(std::panic::AssertUnwindSafe(|| replay(&case)))
        .unwrap_or_else(|_| Err("harness panic during replay".into()));
      let open: Vec<_> = self.findings.open_for_witness(&rel);
      match (res, open.is_empty()) {
        (Ok(()), true) => n_ok += 1,
        (Ok(()), false) => {
          for f in open {
            self.note(&format!("open finding {} no longer reproduces from its witness", f.id));
          }
        }
        (Err(e), false) => {
          for f in open {
            n_known += 1;
            let line = format!("KNOWN-FINDING: property={} {} [{}] witness={}", self.prop, f.what, f.id, rel);
            self.say(&line);
            self.known_lines.lock().unwrap().push(line);
          }
          let _ = e;
        }
        (Err(e), true) => {
          self.violations.fetch_add(1, Ordering::SeqCst);
          self.say(&format!("VIOLATION property={} replay={}", self.prop, p.display()));
          self.note(&format!("regression replay {} failed: {}", rel, e));
        }
      }
    }
    self.set_extra("replay_tier", json!({"passed": n_ok, "known_findings_reproduced": n_known}));
  }

  /// Write evidence and return the process exit code.
  pub fn finish(&self) -> i32 {
    let code = if self.violations.load(Ordering::SeqCst) > 0 {
      1
    } else if self.inconclusive.load(Ordering::SeqCst) > 0 {
      2
    } else {
      0
    };
    crate::evidence::write(self, &self.parts.lock().unwrap());
    self.note(&format!("done, exit {}", code));
    code
  }
}
