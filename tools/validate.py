#!/opt/veriftools/pyvenv/bin/python3
import json,jsonschema,sys,glob
jsonschema.validate(json.load(open('/verif/MANIFEST.json')),json.load(open('/root/.vp/MANIFEST.schema.json')))
es=json.load(open('/root/.vp/EVIDENCE.schema.json'))
for f in sorted(glob.glob('/verif/evidence/*.json')):
    jsonschema.validate(json.load(open(f)),es)
    j=json.load(open(f)); print(f, 'ok', j['coverage']['evaluations'], j['coverage']['distinct_nontrivial'], j['wall_s'])
print('schemas ok')
