#!/bin/bash
# per-position survey of C16 with a single comment (all exclusions off); prints the shrunk failure per position
cd /verif && ./run.sh C16 quick >/dev/null 2>&1
for p in BeforeAssign AfterAssign GenericParam GenericArg ParenOpen ParenClose MapOpen MapClose ArrOpen ArrClose AfterTilde AfterAmp ChoiceOpen ChoiceClose TagOpen TagClose BeforeOp AfterOp BeforeSlash AfterSlash BeforeGrpChoice AfterGrpChoice AfterOccur BeforeColon AfterColon BeforeCut BeforeArrow AfterArrow BeforeComma AfterComma NoComma BeforeTrailingComma InlineOpen InlineClose RuleTrail RuleLead; do
  r=$(VERIF_NO_EXCLUSIONS=all VERIF_COMMENT_POS=$p ./target/harness/release/vcheck C16 quick 2>&1 | grep "violation in one_comment" | sed -E 's/.*violation in one_comment: //' | cut -c1-${W:-500})
  echo "== $p: ${r:-OK}"
done
rm -f replays/C16/viol_*
