#!/bin/bash
# seed2_pipeline.sh <Cxx> : confirm the round-2 seeds of /tmp/seed2/<Cxx>/SEED/{A,B}, archive them as letters C and D under
# /tmp/seedkeep, and run the property's quick check against each (prints the verdict lines)
C="$1"
declare -A MAP=( [A]=C [B]=D )
for X in A B; do
  S=/tmp/seed2/$C/SEED/$X
  [ -f "$S/patch.diff" ] || { echo "$C-$X: no seed"; continue; }
  /verif/tools/confirm_seed.sh /tmp/seed2/$C "$S" >/dev/null 2>&1
  res=$(tail -n 1 "$S/confirm.txt")
  echo "$C-$X (-> ${MAP[$X]}): $res"
  if [ "$res" = "RESULT confirmed" ]; then
    K=/tmp/seedkeep/$C/${MAP[$X]}; mkdir -p $K; cp $S/* $K/
    /verif/tools/seedtest.sh $K/patch.diff $C 2>&1 | grep -E "VIOLATION|violation in|done, exit|apply|dirty" | cut -c1-400 | head -4
  fi
done
