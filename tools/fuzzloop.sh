#!/bin/bash
# fuzzloop.sh <target> <corpus> <runs> [extra libFuzzer flags] : build and run one libFuzzer target; prints the panic message if any
cd /verif/harness
cargo +nightly fuzz build --fuzz-dir ../fuzz "$1" >/dev/null 2>&1 || { echo BUILD FAILED; exit 2; }
mkdir -p "$2"
cargo +nightly fuzz run --fuzz-dir ../fuzz "$1" "$2" -- -runs="$3" -seed=${VERIF_SEED:-1} "${@:4}" 2>&1 | grep -E "panicked|C[0-9][0-9]:|Done [0-9]+ runs|SUMMARY" | head -6 | cut -c1-500
