#!/bin/bash
# confirm_seed.sh <worktree> <seed-dir> : confirm a seeded change in a scratch worktree of /repo at /repo's HEAD:
# compiles, existing suite passes, demo fails with the change and passes without it. Writes <seed-dir>/confirm.txt.
set -u
W="$1"; S="$2"
export CARGO_NET_OFFLINE=true
HEAD=$(git -C /repo rev-parse HEAD)
cd "$W" || exit 2
git checkout -q -f --detach "$HEAD" && git clean -fdq -e SEED -e target
P="$S/patch.diff"; [ -f "$S/patch.rebased.diff" ] && P="$S/patch.rebased.diff"
OUT="$S/confirm.txt"; : > "$OUT"
echo "base=$HEAD patch=$P" >> "$OUT"
if ! git apply "$P" 2>>"$OUT"; then echo "RESULT apply_failed" >> "$OUT"; exit 1; fi
cargo test --workspace --no-fail-fast --offline > "$S/suite.log" 2>&1
pass=$(grep -E "^test result" "$S/suite.log" | sed -E 's/.* ([0-9]+) passed.*/\1/' | paste -sd+ | bc)
fail=$(grep -E "^test result" "$S/suite.log" | sed -E 's/.* ([0-9]+) failed.*/\1/' | paste -sd+ | bc)
comp=$(grep -c "^error\(\[E[0-9]*\]\)\?: could not compile\|^error\[E" "$S/suite.log")
echo "suite_with_patch: passed=$pass failed=$fail compile_errors=$comp" >> "$OUT"
# DEMO_DIR: where seed_demo.rs goes (default tests); DEMO_ARGS: extra cargo test arguments (package, features)
DD="${DEMO_DIR:-tests}"
cp "$S/demo.rs" "$DD/seed_demo.rs"
cargo test --offline ${DEMO_ARGS:-} --test seed_demo > "$S/demo_with.log" 2>&1; dw=$?
git checkout -q -- . 
cargo test --offline ${DEMO_ARGS:-} --test seed_demo > "$S/demo_without.log" 2>&1; dwo=$?
rm -f "$DD/seed_demo.rs"
echo "demo_with_patch_exit=$dw demo_without_patch_exit=$dwo" >> "$OUT"
if [ "$fail" = "0" ] && [ "$comp" = "0" ] && [ "$dw" != "0" ] && [ "$dwo" = "0" ]; then echo "RESULT confirmed" >> "$OUT"; else echo "RESULT not_confirmed" >> "$OUT"; fi
rm -f "$S/suite.log"
