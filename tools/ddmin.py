#!/usr/bin/env python3
"""ddmin.py <json|cbor> <schema-file> <doc> [abort|hang|diff]: token-level delta debugging of a schema text whose
validation aborts / hangs (subprocess per try, so a crash cannot hurt). Prints the minimized schema."""
import subprocess, sys
kind, sfile, doc = sys.argv[1], sys.argv[2], sys.argv[3]
mode = sys.argv[4] if len(sys.argv) > 4 else "abort"
P = "/verif/target/harness/release/vcheck"
def bad(text):
    try:
        r = subprocess.run([P, "probe", kind, text, doc], capture_output=True, timeout=8)
    except subprocess.TimeoutExpired:
        return mode == "hang"
    if mode == "abort":
        return r.returncode < 0 or r.returncode == 134
    return False
lines = open(sfile).read().split("\n")
toks = []
for l in lines:
    toks += l.split(" ") + ["\n"]
assert bad(" ".join(toks).replace(" \n ", "\n")), "initial input does not fail"
def join(t): return " ".join(t).replace(" \n ", "\n").replace(" \n", "\n")
n = 2
while len(toks) >= 2:
    chunk = max(1, len(toks) // n)
    reduced = False
    for i in range(0, len(toks), chunk):
        cand = toks[:i] + toks[i + chunk:]
        if cand and bad(join(cand)):
            toks = cand; n = max(n - 1, 2); reduced = True; break
    if not reduced:
        if chunk == 1: break
        n = min(n * 2, len(toks))
print(join(toks))
