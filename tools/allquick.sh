#!/bin/bash
# allquick.sh [seeds...] : every registered quick check on the unchanged tree with the given VERIF_SEEDs; one line per run
cd /verif
SEEDS="${@:-1 20260922}"
for c in $(python3 -c "import json;print(' '.join(x['property_id'] for x in json.load(open('MANIFEST.json'))['checks']))"); do
  for s in $SEEDS; do
    t0=$(date +%s)
    out=$(VERIF_SEED=$s ./run.sh $c quick 2>&1); code=$?
    echo "$c seed=$s exit=$code $(( $(date +%s)-t0 ))s $(echo "$out" | grep -c VIOLATION) violations"
    [ $code != 0 ] && echo "$out" | grep -E "violation in|INCONCL|WATCHDOG|ABORT" | head -3 | cut -c1-400
  done
done
rm -f replays/*/viol_*
