#!/usr/bin/env python3
"""Regenerate /verif/MANIFEST.json from the table below (single source of truth for what is claimed)."""
import json, os

V = os.path.dirname(os.path.dirname(os.path.abspath(__file__)))

LEVEL_TEXT = ("generated-input search (proptest-driven choice tapes with shrinking; exhaustive enumeration where a small scope is "
              "stated) against an explicit oracle; the property held on the cases counted in the evidence file, no claim of absence")
NOTE = ("trusts the harness' own models/oracles (written from the RFC text, sharing no code with /repo) and proptest; open findings of "
        "KNOWN_FINDINGS.json are excluded by construction and counted; level: exploration")

# id -> (engine, technique, design section)
CHECKS = {
  "C01": ("vcheck", "property-based testing: generated (schema, document) pairs (samples, near-misses, unrelated) checked against a reference implementation of the RFC 8610 set semantics (PEG arrays, declarative maps); proptest shrinking ; exhaustive small scope (270 root types x 34 documents)", "3/C01"),
  "C02": ("vcheck", "property-based testing: generated (schema, data item) pairs x 3 encodings each, checked against the reference RFC 8610 semantics over the CBOR data model; metamorphic equality across encodings; proptest shrinking ; exhaustive small scope (small grammar x 39 data items x 3 encodings)", "3/C02"),
  "C04": ("vcheck", "differential testing: generated shared-feature schemas x JSON-model documents, JSON validator vs CBOR validator verdict classes, calls isolated in worker processes; proptest shrinking", "3/C04"),
  "C05": ("vcheck", "fuzzing-style robustness testing: grammar-sampled, mutated and random inputs to every entry point, each call in a child worker process (8 MiB stack, 4 GiB address space, per-call limit); panics / aborts / hangs are violations; growth series for the polynomial-time clause; proptest shrinking ; thorough tier additionally runs a coverage-guided libFuzzer campaign (cargo-fuzz, ASan, oracle inside the target, committed seed corpus)", "3/C05"),
  "C06": ("vcheck", "property-based testing: grammar-sampled documents, parse->Display->parse round-trip oracle on an independent AST skeleton, idempotence, proptest shrinking", "3/C06"),
  "C07": ("vcheck", "property-based testing: literal spellings with the value known by construction (radix/sign/boundary integers, dyadic and shortest round-trip floats, hex floats, every escape form of text, h/b64/plain byte strings with embedded trivia) placed at every literal position; the AST must carry exactly that value or the text must be rejected; proptest shrinking", "3/C07"),
  "C08": ("vcheck", "metamorphic testing: 1-3 composed meaning-preserving refactorings of generated schemas (extract/inline rules, identity generics, generic substitution by hand incl. nested generics, /= and //= increments, sockets, parentheses, renaming, rule order) must keep the verdict of each validator; worker-process isolation; proptest shrinking", "3/C08"),
  "C09": ("vcheck", "metamorphic testing: boolean identities between separate validator runs (choice, .and/.within, .ne/.eq, range forms, occurrence forms, prelude definitions) in four contexts, both validators, worker-process isolation; proptest shrinking", "3/C09"),
  "C10": ("vcheck", "metamorphic testing: permutations of map pairs (CBOR encoding / JSON text) and of disjoint-key schema members must not change the verdict; repeated keys compared with the reference semantics; worker-process isolation; proptest shrinking", "3/C10"),
  "C11": ("vcheck", "differential testing against a reference RFC 8949 decoder: exhaustive enumeration of short byte strings + structured/mutated generated encodings, proptest shrinking ; thorough tier additionally runs a coverage-guided libFuzzer campaign (cargo-fuzz, ASan, oracle inside the target, committed seed corpus)", "3/C11"),
  "C12": ("vcheck", "property-based testing from a name plan: generated rule lists with colliding names, operators, generics, sockets and reference slots at every syntactic position; expected duplicate / undefined-reference verdicts, messages and positions computed from the plan; proptest shrinking", "3/C12"),
  "C13": ("vcheck", "differential testing against a reference mapping: generated field tables rendered as RFC 4180 text (quoting, doubled quotes, embedded separators / line breaks, CRLF/LF, ragged rows, header flag); validate_csv_from_str vs validate_json_from_str on the harness-built mapped document; proptest shrinking", "3/C13"),
  "C15": ("vcheck", "invariant checking over generated inputs: grammar-derived documents with random blanks / CRLF / multi-byte comments and literals, plus 1-2 character edits and short token strings for the rejected side; oracle = span-tree laws (bounds, UTF-8 boundaries, line recount, containment, sibling order, identifier text, rule start) and error-position laws (in input, boundaries, line / column recount, non-inverted range); proptest shrinking ; thorough tier additionally runs a coverage-guided libFuzzer campaign (cargo-fuzz, ASan, oracle inside the target, committed seed corpus)", "3/C15"),
  "C16": ("vcheck", "property-based testing with a metamorphic round trip: grammar-derived documents with generated comments at every S position kind (unique texts, literals containing ';', byte strings with inner comments, CRLF); oracle = all 50 AST comment slots vs an independent comment scanner of the source (only real comments, unchanged, at most once), comment multiset of the formatted text vs attached comments, and skeleton equality after re-parsing the formatted text; proptest shrinking", "3/C16"),
  "C20": ("vcheck", "model-based property testing: grammar-derived documents (small name / literal pools so identical sub-expressions recur); reference model = own AST walk listing every (child, container) pair; oracle = parent query returns the container itself (variant + address), typed Parent::parent interface, root without parent; proptest shrinking", "3/C20"),
  "C18": ("vcheck", "differential testing of the built command-line binary against in-process library calls: generated invocations (schema file, documents over --json/--cbor/--csv/--stdin, --ci, --features, --csv-header, missing files, broken schemas, rules in front of the root) with valid / near-miss documents from the semantic generator and .feature families; oracle = library verdict per document with the same bytes and features vs success / failure lines and --ci exit status; compile-cddl vs cddl_from_str on generated and mutated texts; proptest shrinking (capped)", "3/C18"),
  "C19": ("vcheck", "configuration testing plus differential testing across builds: cargo check of sampled (quick) or all 256 (thorough) feature sets; a driver built against 8-20 feature sets answers generated requests (parse + skeleton, format, JSON / CBOR / CSV validation of generated schemas with valid and near-miss documents, .pcre families) and all builds that provide the operation must agree; proptest shrinking", "3/C19"),
  "C03": ("vcheck", "grammar-based generation and differential testing against an independent recognizer: an Earley recognizer over the ABNF text of RFC 8610 Appendix B + RFC 9682 (+ the leniencies the crate documents, registered control names), with a longest-match reading for identifiers and numbers; positive: documents printed from random derivations must be accepted and the AST skeleton must equal the derivation's; agreement: 1-2 character edits of such documents and short token strings - whatever the parser accepts must be derivable; proptest shrinking ; thorough tier additionally runs a coverage-guided libFuzzer campaign (cargo-fuzz, ASan, oracle inside the target, committed seed corpus)", "3/C03"),
  "C17": ("vcheck", "generated programs: schemas sampled from the documented mapping subset (maps, optional / nullable fields, arrays, tables, aliases, rule references incl. recursion, string-literal choices, hyphenated / keyword / colliding names) are compiled through cddl_typegen! in batches with the repository toolchain; valid-by-construction instances (accepted by the library validator) are deserialised into the generated root type and serialised back; oracle = compiles, same data (numbers by value), output still validates, two macro expansions in separate processes are byte-identical", "3/C17"),
  "C14": ("vcheck", "property-based testing of error reporting: non-empty error lists, JSON locations resolved against the document, distinct error kinds per fault, determinism across repetition / 8 concurrent threads / a fresh process", "3/C14"),
}

REASON_NOT_BUILT = "check not built yet (work in progress; see DESIGN.md section 3)"

def main():
    props = [json.loads(l) for l in open(os.path.join(V, "properties.jsonl"))]
    extra = {}
    p = os.path.join(V, "tools", "manifest_extra.json")
    if os.path.exists(p):
        extra = json.load(open(p))
    checks = []
    for pr in props:
        i = pr["id"]
        if i not in CHECKS:
            continue
        eng, tech, ref = CHECKS[i]
        checks.append({
            "property_id": i,
            "quick_cmd": "./run.sh %s quick" % i,
            "thorough_cmd": "./run.sh %s thorough" % i,
            "evidence_file": "evidence/%s.json" % i,
            "replay_cmd_template": "./target/harness/release/vcheck replay {path}",
            "engine": eng,
            "level_claimed": {"category": "exploration", "text": LEVEL_TEXT, "design_ref": "DESIGN.md section " + ref},
            "level_note": NOTE,
            "technique": tech,
        })
    na = [{"property_id": pr["id"], "reason": extra.get("not_applicable", {}).get(pr["id"], REASON_NOT_BUILT)}
          for pr in props if pr["id"] not in CHECKS]
    engines = {}
    for i, (eng, _, _) in CHECKS.items():
        engines.setdefault(eng, []).append(i)
    ENG = {
        "vcheck": ("harness/", "Rust binary: proptest TestRunner over choice tapes (fixed seeds from VERIF_SEED, shrinking), own CDDL/CBOR/JSON models, reference oracles, replay tier, known-findings protocol"),
        "fuzz": ("fuzz/", "cargo-fuzz (libFuzzer) targets with the semantic oracle inside the target; fixed -runs campaigns in the thorough tier"),
        "featdrv": ("featdrv/", "driver crate compiled once per cargo feature set (C19)"),
        "derive_proj": ("derive_proj/", "generated crates using cddl_typegen! (C17)"),
    }
    m = {
        "version": 1,
        "setup_cmd": "./setup.sh",
        "hooks": {
            "guard": "verif_hooks",
            "enable": "none needed: all observation points are public API; checks build /repo unmodified via a path dependency",
            "baseline_off_cmd": "cd /repo && cargo test --workspace --no-fail-fast --offline",
            "source_commits": [],
            "add_only": True,
        },
        "engines": [{"name": e, "path": ENG[e][0], "serves_properties": sorted(ps), "kind_free_text": ENG[e][1]} for e, ps in engines.items()]
        + [{"name": "fuzz", "path": "fuzz/", "serves_properties": ["C03", "C05", "C11", "C15"], "kind_free_text": ENG["fuzz"][1] + " (tools/fuzz_tier.py, called by run.sh)"},
           {"name": "fdriver", "path": "fdriver/", "serves_properties": ["C19"], "kind_free_text": "driver crate compiled once per cargo feature set and kept running as a line-protocol server (used by vcheck C19)"}],
        "checks": checks,
        "not_applicable": na,
        "notes": "see DESIGN.md; KNOWN_FINDINGS.json lists recorded (open) and repaired (fixed) defects; seeded/ holds confirmed breaking changes used to test sensitivity",
    }
    json.dump(m, open(os.path.join(V, "MANIFEST.json"), "w"), indent=1)
    print("MANIFEST.json: %d checks, %d not_applicable" % (len(checks), len(na)))

main()
