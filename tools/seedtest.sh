#!/bin/bash
# seedtest.sh <patch> <Cxx> [tier]  : apply a seeded change to /repo, run one check, undo. Prints the verdict lines.
set -u
P="$1"; C="$2"; T="${3:-quick}"
cd /repo || exit 2
if ! git diff --quiet; then echo "repo dirty"; exit 2; fi
if ! git apply "$P" 2>/dev/null; then git apply -3 "$P" || { echo "patch does not apply"; git reset -q --hard HEAD; exit 2; }; fi
(cd /verif && timeout 3000 ./run.sh "$C" "$T" 2>&1 | grep -E "VIOLATION|violation in|INCONCLUSIVE|exit|build failed|^error" | head -8)
git -C /repo reset -q --hard HEAD
rm -f /verif/replays/*/viol_*
