#!/usr/bin/env python3
"""fuzz_tier.py <Cxx> <target> <runs-per-job> <jobs> [max_len]

Coverage-guided part of a thorough tier: builds the cargo-fuzz target (libFuzzer, ASan, oracle inside the target),
runs <jobs> jobs of <runs-per-job> executions each from the committed seed corpus plus an empty scratch corpus, and
merges a `fuzz` block into evidence/<Cxx>.json.  Exit 0 = no oracle failure, 1 = VIOLATION (crash artifact kept and
copied to replays/<Cxx>/viol_fuzz_*.bin), 2 = build problem / timeout (inconclusive)."""
import glob, json, os, re, shutil, subprocess, sys, time

V = os.path.dirname(os.path.dirname(os.path.abspath(__file__)))
prop, target, runs, jobs = sys.argv[1], sys.argv[2], int(sys.argv[3]), int(sys.argv[4])
max_len = sys.argv[5] if len(sys.argv) > 5 else "256"
seed = os.environ.get("VERIF_SEED", "1")
if seed == "0":
    seed = "1"
env = dict(os.environ, CARGO_NET_OFFLINE="true")
h = os.path.join(V, "harness")
t0 = time.time()
b = subprocess.run(["cargo", "+nightly", "fuzz", "build", "--fuzz-dir", "../fuzz", target], cwd=h, env=env, capture_output=True, text=True)
if b.returncode != 0:
    print("fuzz target build failed:\n" + b.stderr[-2000:], file=sys.stderr)
    sys.exit(2)
work = os.path.join(V, "target", "fuzz_work", target)
shutil.rmtree(work, ignore_errors=True)
os.makedirs(work)
seeds = os.path.join(V, "fuzz", "seeds", target)
art = os.path.join(V, "fuzz", "artifacts", target)
shutil.rmtree(art, ignore_errors=True)
cmd = ["cargo", "+nightly", "fuzz", "run", "--fuzz-dir", "../fuzz", target, work]
if os.path.isdir(seeds):
    cmd.append(seeds)
cmd += ["--", "-runs=%d" % runs, "-seed=%s" % seed, "-max_len=%s" % max_len, "-jobs=%d" % jobs, "-workers=%d" % jobs, "-timeout=30", "-print_final_stats=1"]
r = subprocess.run(cmd, cwd=h, env=env, capture_output=True, text=True)
logs = ""
for f in sorted(glob.glob(os.path.join(h, "fuzz-*.log"))):
    logs += open(f, errors="replace").read()
    os.remove(f)
out = r.stdout + r.stderr + logs
done = [int(x) for x in re.findall(r"Done (\d+) runs", out)]
execs = [int(x) for x in re.findall(r"stat::number_of_executed_units:\s+(\d+)", out)]
cov = [int(x) for x in re.findall(r"cov: (\d+)", out)]
crashes = sorted(glob.glob(os.path.join(art, "crash-*")))
timeouts = sorted(glob.glob(os.path.join(art, "timeout-*"))) + sorted(glob.glob(os.path.join(art, "oom-*")))
msg = re.findall(r"panicked at [^\n]*\n([^\n]*)", out)
block = {
    "engine": "libFuzzer via cargo-fuzz (ASan), oracle inside the target",
    "target": target,
    "jobs": jobs,
    "runs_per_job": runs,
    "executions": sum(execs) if execs else sum(done),
    "max_edge_coverage": max(cov) if cov else None,
    "corpus_files_after": len(os.listdir(work)),
    "crashes": len(crashes),
    "timeouts_or_oom": len(timeouts),
    "wall_s": round(time.time() - t0, 1),
    "seed": int(seed),
}
ev = os.path.join(V, "evidence", prop + ".json")
try:
    e = json.load(open(ev))
    e.setdefault("coverage", {})["fuzz"] = block
    json.dump(e, open(ev, "w"), indent=1)
except Exception as ex:  # evidence of the generated tier missing: keep going, report below
    print("evidence not updated: %s" % ex, file=sys.stderr)
print("[%s fuzz] %s: %d executions in %d jobs, edge coverage %s, %d crash(es), %d timeout(s), %.0f s" % (prop, target, block["executions"], jobs, block["max_edge_coverage"], len(crashes), len(timeouts), block["wall_s"]))
if crashes:
    os.makedirs(os.path.join(V, "replays", prop), exist_ok=True)
    for c in crashes[:3]:
        data = open(c, "rb").read()
        # the same input as a replay file of the generated tier (`vcheck replay <file>`)
        if target == "c11_decode":
            case = {"property": prop, "check": "fuzz", "bytes": data.hex(), "kind": "libfuzzer"}
        elif target == "c05_parse":
            case = {"property": prop, "check": "fuzz", "entry": "parse", "text_hex": data.hex()}
        elif target == "c15_spans":
            case = {"property": prop, "check": "fuzz", "text": data.decode("utf-8", "replace"), "checked": False}
        else:
            case = {"property": prop, "check": "agreement", "text": data.decode("utf-8", "replace")}
        dst = os.path.join(V, "replays", prop, "viol_fuzz_" + os.path.basename(c)[:22] + ".json")
        json.dump(case, open(dst, "w"), indent=1)
        print("VIOLATION property=%s replay=%s" % (prop, dst))
    for m in msg[:3]:
        print("  " + m[:600])
    sys.exit(1)
if timeouts:
    print("INCONCLUSIVE: %d input(s) exceeded the per-input time limit (kept under fuzz/artifacts/%s)" % (len(timeouts), target), file=sys.stderr)
    sys.exit(2)
sys.exit(0)
