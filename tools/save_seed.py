#!/usr/bin/env python3
"""save_seed.py <Cxx> <A|B> <caught_by> <detail...> : copy a confirmed seeded change from /tmp/seed into /verif/seeded/."""
import json, os, shutil, sys
prop, letter, caught = sys.argv[1], sys.argv[2], sys.argv[3]
detail = " ".join(sys.argv[4:])
src = "/tmp/seedkeep/%s/%s" % (prop, letter)
dst = "/verif/seeded/%s-%s" % (prop, letter)
os.makedirs(dst, exist_ok=True)
patch = os.path.join(src, "patch.rebased.diff") if os.path.exists(os.path.join(src, "patch.rebased.diff")) else os.path.join(src, "patch.diff")
shutil.copy(patch, os.path.join(dst, "patch.diff"))
shutil.copy(os.path.join(src, "demo.rs"), os.path.join(dst, "demo.rs"))
meta = json.load(open(os.path.join(src, "meta.json")))
conf = open(os.path.join(src, "confirm.txt")).read() if os.path.exists(os.path.join(src, "confirm.txt")) else ""
out = {
  "property": prop,
  "summary": meta.get("summary"),
  "needs": meta.get("needs"),
  "files": meta.get("files"),
  "author": "independent sub-agent given only the property text and a scratch worktree",
  "author_commands": meta.get("commands_run"),
  "confirmed_by_me": {"script": "tools/confirm_seed.sh (scratch worktree at /repo HEAD: apply, cargo test --workspace, demo with / without)", "result": conf.strip().splitlines()},
  "detection": {"caught_by": caught, "detail": detail, "how": "tools/seedtest.sh seeded/%s-%s/patch.diff %s" % (prop, letter, caught.split()[0] if caught else "")},
}
json.dump(out, open(os.path.join(dst, "meta.json"), "w"), indent=1, ensure_ascii=False)
print("saved", dst)
