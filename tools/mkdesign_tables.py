#!/usr/bin/env python3
"""Regenerate the generated appendix of DESIGN.md (between the BEGIN/END GENERATED markers) from
KNOWN_FINDINGS.json, seeded/*/meta.json and `git -C /repo log`."""
import json, glob, os, re, subprocess

V = os.path.dirname(os.path.dirname(os.path.abspath(__file__)))
kf = json.load(open(os.path.join(V, "KNOWN_FINDINGS.json")))["findings"]


def esc(s):
    return s.replace("|", "\\|").replace("\n", " ")


out = []
out.append("### A.1 Open findings (genuine defects recorded, not repaired)\n")
out.append("Each is keyed by its witness file(s) under `replays/`; the check prints one `KNOWN-FINDING:` line per entry, and the named exclusion keeps generators away from that root cause only.\n")
out.append("| id | property | exclusion | what fails |")
out.append("|---|---|---|---|")
for f in kf:
    if f["status"] != "open":
        continue
    ex = f.get("exclusion", "")
    if isinstance(ex, list):
        ex = ", ".join(ex)
    out.append("| %s | %s | `%s` | %s |" % (f["id"], f["property"], ex, esc(f["what"])[:420]))
out.append("")
out.append("### A.2 Defects repaired in /repo (`fix:` commits; regression witnesses replayed on every run)\n")
out.append("| id | property | commit | what failed |")
out.append("|---|---|---|---|")
for f in kf:
    if f["status"] != "fixed":
        continue
    out.append("| %s | %s | %s | %s |" % (f["id"], f["property"], f.get("commit", ""), esc(re.sub(r"^fixed: property=\S+ \S+ ", "", f["what"]))[:420]))
out.append("")
log = subprocess.run(["git", "-C", "/repo", "log", "--format=%h %s"], capture_output=True, text=True).stdout.splitlines()
fixes = [l for l in log if l.split(" ", 1)[1].startswith("fix:")]
out.append("All %d `fix:` commits in /repo (newest first; the eleven oldest are from round 1, before this file listed fixes):\n" % len(fixes))
for l in fixes:
    out.append("* `%s`" % esc(l))
out.append("")
out.append("### A.3 Seeded changes (written by independent sub-agents from the property text only) and which check notices them\n")
out.append("| seed | touches | caught by | detail |")
out.append("|---|---|---|---|")
for d in sorted(glob.glob(os.path.join(V, "seeded", "*"))):
    m = json.load(open(os.path.join(d, "meta.json")))
    det = m.get("detection", {})
    out.append("| %s | %s | %s | %s |" % (os.path.basename(d), ", ".join(m.get("files", []))[:60], det.get("caught_by", "?"), esc(det.get("detail", ""))[:300]))
out.append("")

p = os.path.join(V, "DESIGN.md")
s = open(p).read()
b, e = "<!-- BEGIN GENERATED -->", "<!-- END GENERATED -->"
i, j = s.index(b), s.index(e)
s = s[: i + len(b)] + "\n" + "\n".join(out) + "\n" + s[j:]
open(p, "w").write(s)
print("DESIGN.md appendix regenerated: %d open, %d fixed, %d seeds" % (sum(f["status"] == "open" for f in kf), sum(f["status"] == "fixed" for f in kf), len(glob.glob(os.path.join(V, "seeded", "*")))))
