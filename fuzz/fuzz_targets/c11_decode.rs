#![no_main]
//! C11 under coverage guidance: decode_cbor vs the reference decoder of vcore on arbitrary bytes.
//! The oracle is inside the target; the open finding C11-F1 (undefined decodes to Null) is tolerated so that the
//! campaign is not stopped by it.
use cddl::validator::cbor_value::{decode_cbor, Value};
use libfuzzer_sys::fuzz_target;
use vcore::cbor::{self, CVal};

fn to_cval(v: &Value) -> CVal {
  match v {
    Value::Integer(i) => CVal::Int(i128::from(*i)),
    Value::Bytes(b) => CVal::Bytes(b.clone()),
    Value::Float(f) => CVal::Float(f.to_bits()),
    Value::Text(s) => CVal::Text(s.clone()),
    Value::Bool(b) => CVal::bool(*b),
    Value::Null => CVal::null(),
    Value::Tag(t, x) => CVal::Tag(*t, Box::new(to_cval(x))),
    Value::Array(a) => CVal::Array(a.iter().map(to_cval).collect()),
    Value::Map(m) => CVal::Map(m.iter().map(|(k, v)| (to_cval(k), to_cval(v))).collect()),
    Value::Simple(n) => CVal::Simple(*n),
  }
}

fn same(a: &CVal, b: &CVal) -> bool {
  match (a, b) {
    (CVal::Float(x), CVal::Float(y)) => x == y || (f64::from_bits(*x).is_nan() && f64::from_bits(*y).is_nan()),
    // C11-F1: undefined (23) is returned as null (22)
    (CVal::Simple(x), CVal::Simple(y)) => x == y || matches!((x, y), (22, 23) | (23, 22)),
    (CVal::Array(x), CVal::Array(y)) => x.len() == y.len() && x.iter().zip(y).all(|(p, q)| same(p, q)),
    (CVal::Map(x), CVal::Map(y)) => x.len() == y.len() && x.iter().zip(y).all(|(p, q)| same(&p.0, &q.0) && same(&p.1, &q.1)),
    (CVal::Tag(t, x), CVal::Tag(u, y)) => t == u && same(x, y),
    _ => a == b,
  }
}

fuzz_target!(|data: &[u8]| {
  if data.len() > 4096 || cbor::nesting_depth(data) > 48 {
    return;
  }
  let want = cbor::ref_decode(data);
  let got = decode_cbor(data);
  match (&want, &got) {
    (Err(_), Err(_)) => {}
    (Ok((rv, _)), Ok(gv)) => {
      let gv = to_cval(gv);
      if !same(rv, &gv) {
        panic!("C11: wrong value: RFC 8949 value {} but decoder returned {} ; input {}", rv.diag(), gv.diag(), cbor::hex(data));
      }
    }
    (Ok((v, _)), Err(e)) => panic!("C11: well-formed item rejected: {} ; reference value {} ; input {}", e, v.diag(), cbor::hex(data)),
    (Err(e), Ok(_)) => panic!("C11: ill-formed input accepted ({:?}) ; input {}", e, cbor::hex(data)),
  }
});
