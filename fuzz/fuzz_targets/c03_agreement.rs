#![no_main]
//! C03 under coverage guidance: whatever cddl_from_str accepts must be derivable from the ABNF oracle
//! (with the relaxations that stand for the open findings, all switched on).
use libfuzzer_sys::fuzz_target;
use std::sync::OnceLock;
use vcore::earley::Grammar;

static G: OnceLock<Grammar> = OnceLock::new();
static G2: OnceLock<Grammar> = OnceLock::new();

fuzz_target!(|data: &[u8]| {
  if data.len() > 200 {
    return;
  }
  let text = match std::str::from_utf8(data) {
    Ok(t) => t,
    Err(_) => return,
  };
  // the one boundary of the transcribed ABNF that is uncertain (NONASCII) is not exercised
  if text.chars().any(|c| ('\u{80}'..='\u{9f}').contains(&c)) {
    return;
  }
  // open finding C05-F9: rejected texts with many unclosed brackets take exponential time
  let mut depth = 0i32;
  let mut max = 0i32;
  for b in data {
    match b {
      b'[' | b'{' | b'(' | b'<' => {
        depth += 1;
        max = max.max(depth);
      }
      b']' | b'}' | b')' | b'>' => depth -= 1,
      _ => {}
    }
  }
  if max > 10 {
    return;
  }
  let accepted = cddl::cddl_from_str(text, false).is_ok();
  if accepted {
    let g = G.get_or_init(|| vcore::cddl_abnf::grammar_with(&|_| true));
    if !g.recognizes("cddl", text) && !(text.contains(".<") && G2.get_or_init(|| vcore::cddl_abnf::grammar_with_unchecked_escapes(&|_| true)).recognizes("cddl", text)) {
      panic!("C03: the parser accepts a text that is not derivable: {:?}", text);
    }
  }
});
