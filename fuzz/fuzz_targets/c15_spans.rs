#![no_main]
//! C15 under coverage guidance: span laws on accepted texts, position laws on rejected ones (oracle: vcore::spans).
use libfuzzer_sys::fuzz_target;

fn too_deep(data: &[u8]) -> bool {
  // open finding C05-F9: rejected texts with many unclosed brackets take exponential time
  let (mut d, mut m) = (0i32, 0i32);
  for b in data {
    match b {
      b'[' | b'{' | b'(' | b'<' => {
        d += 1;
        m = m.max(d);
      }
      b']' | b'}' | b')' | b'>' => d -= 1,
      _ => {}
    }
  }
  m > 10
}

fuzz_target!(|data: &[u8]| {
  if data.len() > 300 || too_deep(data) {
    return;
  }
  let text = match std::str::from_utf8(data) {
    Ok(t) => t,
    Err(_) => return,
  };
  match cddl::pest_bridge::cddl_from_pest_str(text) {
    Ok(c) => {
      let broken = vcore::spans::check_ast(text, &c);
      if let Some((sig, msg)) = broken.first() {
        panic!("C15: [{}] {} ; text={:?}", sig, msg, text);
      }
    }
    Err(cddl::parser::Error::PARSER { position, .. }) => {
      let broken = vcore::spans::check_position(text, position.line, position.column, position.range, position.index);
      if let Some((sig, msg)) = broken.first() {
        panic!("C15: [{}] {} ; text={:?}", sig, msg, text);
      }
    }
    Err(_) => {}
  }
});
