#![no_main]
//! C05 under coverage guidance: the parsing-side entry points must return (no panic, no abort) on arbitrary bytes:
//! CDDL::from_slice, cddl_from_str, Display, re-parse of the formatted text, ParentVisitor::new.
use libfuzzer_sys::fuzz_target;

fuzz_target!(|data: &[u8]| {
  if data.len() > 400 {
    return;
  }
  // open finding C05-F9
  let (mut d, mut m) = (0i32, 0i32);
  for b in data {
    match b {
      b'[' | b'{' | b'(' | b'<' => {
        d += 1;
        m = m.max(d);
      }
      b']' | b'}' | b')' | b'>' => d -= 1,
      _ => {}
    }
  }
  if m > 10 {
    return;
  }
  let _ = cddl::ast::CDDL::from_slice(data);
  if let Ok(text) = std::str::from_utf8(data) {
    if let Ok(c) = cddl::cddl_from_str(text, false) {
      let s = c.to_string();
      let _ = cddl::cddl_from_str(&s, false);
      let _ = cddl::ast::parent::ParentVisitor::new(&c).is_ok();
    }
  }
});
